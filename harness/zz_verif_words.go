//go:build verif

package main

// Words of the command vocabulary in other roles.  The keys that name a namespace inside a command document (the verbs,
// "collection", "ns", "$db" ...) and the members of batched write statements (q, u, c, multi, upsert, limit, hint ...) are
// ordinary words: an attribute of any log line may be called "collection" or "count", a user document may have a field
// "find", "u" or "limit".  For every such word W the word is planted (1) as a string attribute next to attr.ns in a
// line of another component and in a command line, (2) as a user field at the top of a filter, of q / u documents, of an
// inserted document and below $set, and the lines are redacted with and without --redactNamespaces / --redactFieldNames:
//   C04  the attribute keeps its value under every flag set;
//   C12  the output with -w differs from the output without it at namespace positions only;
//   C15  with -f the user field is renamed to its pseudonym wherever it stands, and no occurrence of the word as a user
//        field name remains;
//   C01  the literal below the user field does not survive.

import (
	"fmt"
	"strings"
)

var roleWords = []string{"find", "aggregate", "update", "delete", "insert", "count", "distinct", "findAndModify", "getMore", "collection", "ns", "$db", "replace", "explain", "create", "drop",
	"q", "u", "c", "multi", "upsert", "limit", "hint", "collation", "arrayFilters", "ordered", "let", "filter", "query", "sort", "pipeline", "documents", "updates", "deletes", "command", "attr", "type"}

func wordsInOtherRoles(c *Ctx, prop string) {
	env := func(comp, msg, attr string) string {
		return `{"t":{"$date":"2024-05-01T10:00:00.123+00:00"},"s":"I","c":"` + comp + `","id":51803,"ctx":"conn7","msg":"` + msg + `","attr":` + attr + `}`
	}
	var no int64
	for wi, w := range roleWords {
		qw := LS(w).JSON()
		attrVal := fmt.Sprintf("kept text %d of the attribute", wi)
		can := fmt.Sprintf("q7Z~w%d~kX", wi)
		type ln struct {
			name, text string
			attrWord   bool // the word is an attribute next to attr.ns
			userField  bool
		}
		var lines []ln
		if w != "ns" && w != "command" && w != "type" {
			lines = append(lines,
				ln{"other-component attribute", env("SHARDING", "refreshed cached collection", `{"ns":"shop.orders",`+qw+`:"`+attrVal+`","durationMillis":3}`), true, false},
				ln{"command-line attribute", env("COMMAND", "Slow query", `{"type":"command","ns":"shop.orders",`+qw+`:"`+attrVal+`","command":{"find":"orders","filter":{"a":"`+can+`"},"$db":"shop"},"durationMillis":3}`), true, false})
		}
		lines = append(lines,
			ln{"find.filter field", env("COMMAND", "Slow query", `{"type":"command","ns":"shop.orders","command":{"find":"orders","filter":{`+qw+`:"`+can+`","other":{`+qw+`:"`+can+`b"}},"$db":"shop"},"durationMillis":3}`), false, true},
			ln{"update q / u / $set field", env("COMMAND", "Slow query", `{"type":"command","ns":"shop.orders","command":{"update":"orders","updates":[{"q":{`+qw+`:"`+can+`"},"u":{"$set":{`+qw+`:"`+can+`b"}},"multi":false}],"$db":"shop"},"durationMillis":3}`), false, true},
			ln{"insert document field", env("COMMAND", "Slow query", `{"type":"command","ns":"shop.orders","command":{"insert":"orders","documents":[{`+qw+`:"`+can+`","_id":1}],"$db":"shop"},"durationMillis":3}`), false, true},
			ln{"WRITE line q / u field", env("WRITE", "Slow query", `{"type":"update","ns":"shop.orders","command":{"q":{`+qw+`:"`+can+`"},"u":{`+qw+`:"`+can+`b","k":1},"multi":false,"upsert":false},"durationMillis":3}`), false, true})
		for _, l := range lines {
			no++
			if !c.Mine(no) {
				continue
			}
			in, err := ParseJSON([]byte(l.text))
			if err != nil {
				c.HarnessError("words: bad line %s: %v", l.text, err)
				return
			}
			run := func(fl Flags) (string, *JNode) {
				fl.Apply()
				o, ok, pv := redactLine(l.text)
				c.Eval(1)
				if pv != nil || !ok {
					return "", nil
				}
				j, _ := ParseJSON([]byte(o))
				return o, j
			}
			base, jb := run(Flags{})
			c.Distinct("words|" + w + "|" + l.name)
			if jb == nil {
				continue
			}
			rp := func(fl Flags, out string) map[string]any {
				return map[string]any{"kind": "redact-line", "input": l.text, "flags": fl.String(), "output": out}
			}
			switch prop {
			case "C04":
				for _, fl := range []Flags{{}, {W: true}, {N: true, B: true, I: true, W: true}, {F: []string{"other.ns"}}} {
					o, j := run(fl)
					if j == nil {
						continue
					}
					if l.attrWord {
						if a := jget(jget(j, "attr"), w); a == nil || a.Kind != JStr || a.Str != attrVal {
							c.Violate("altered:attribute-named-like-a-command-word", fmt.Sprintf("the attribute %q of a line (%s) does not name a namespace, it just has that name; flags [%s]: it comes out as %s", w, l.name, fl, trunc(o, 300)), int64(wi), rp(fl, o), nil)
						}
					}
				}
			case "C12":
				for _, fl := range []Flags{{W: true}, {W: true, N: true, B: true}} {
					off := fl
					off.W = false
					bo, jo := run(off)
					o, j := run(fl)
					if j == nil || jo == nil {
						continue
					}
					if d := wordsDiff(jo, j, nil, in); d != "" {
						c.Violate("ns-confinement:word-in-another-role", fmt.Sprintf("the word %q as %s: with --redactNamespaces the line differs from the line without it at %s, which is not a namespace position; without: %s | with: %s", w, l.name, d, trunc(bo, 300), trunc(o, 300)), int64(wi), rp(fl, o), nil)
					}
				}
			case "C15":
				if !l.userField || strings.HasPrefix(w, "$") {
					continue
				}
				fl := Flags{F: []string{"shop.orders"}}
				o, j := run(fl)
				if j == nil {
					continue
				}
				want := HashName(w)
				bad := ""
				var scan func(n *JNode, path []string)
				scan = func(n *JNode, path []string) {
					for i, k := range n.Kids {
						seg := "[]"
						if n.Kind == JObj {
							seg = n.Keys[i]
						}
						scan(k, append(path, seg))
					}
				}
				_ = scan
				// the word was planted as a user field exactly where the input has a string value holding the canary below it
				var walk func(a, b *JNode, path []string)
				walk = func(a, b *JNode, path []string) {
					if a == nil || b == nil || a.Kind != b.Kind || len(a.Kids) != len(b.Kids) {
						return
					}
					for i := range a.Kids {
						seg := "[]"
						if a.Kind == JObj {
							seg = a.Keys[i]
							planted := a.Keys[i] == w && len(path) >= 3 && (a.Kids[i].Kind == JStr && strings.Contains(a.Kids[i].Str, can) || a.Kids[i].Kind == JObj && path[len(path)-1] == "other")
							if planted && b.Keys[i] != want && bad == "" {
								bad = fmt.Sprintf("%s.%s is emitted as %q, the pseudonym of the name is %q", strings.Join(path, "."), w, b.Keys[i], want)
							}
						}
						walk(a.Kids[i], b.Kids[i], append(path, seg))
					}
				}
				walk(in, j, nil)
				if bad != "" {
					c.Violate("fieldnames:key-not-renamed:word-of-the-command-vocabulary", fmt.Sprintf("a user field called %q (%s), --redactFieldNames shop.orders: %s; output %s", w, l.name, bad, trunc(o, 400)), int64(wi), rp(fl, o), nil)
				}
			case "C01":
				if !l.userField {
					continue
				}
				for _, fl := range []Flags{{}, {W: true}, {F: []string{"shop.orders"}}, {W: true, F: []string{"shop"}, N: true, B: true}} {
					o, j := run(fl)
					if j != nil && strings.Contains(o, can) {
						c.Violate("leak:user-field-named-like-a-command-word", fmt.Sprintf("a user field called %q (%s), flags [%s]: the literal below it survives: %s", w, l.name, fl, trunc(o, 400)), int64(wi), rp(fl, o), nil)
					}
				}
			}
			_ = base
		}
	}
	Flags{}.Apply()
}

// wordsDiff: the first position where b differs from a that is not a namespace position of the input line
// (attr.ns, the verb's collection, $db directly in the command document).
func wordsDiff(a, b *JNode, path []string, in *JNode) string {
	if a.Kind != b.Kind || len(a.Kids) != len(b.Kids) {
		return strings.Join(path, ".")
	}
	switch a.Kind {
	case JStr:
		if a.Str != b.Str {
			p := strings.Join(path, ".")
			if p == "attr.ns" || p == "attr.command.$db" || (len(path) == 3 && path[0] == "attr" && path[1] == "command" && (path[2] == "find" || path[2] == "update" || path[2] == "insert")) {
				return ""
			}
			return p
		}
	case JNum:
		if a.Num != b.Num {
			return strings.Join(path, ".")
		}
	case JBool:
		if a.Bool != b.Bool {
			return strings.Join(path, ".")
		}
	}
	for i := range a.Kids {
		seg := "[]"
		if a.Kind == JObj {
			if a.Keys[i] != b.Keys[i] {
				return strings.Join(append(path, a.Keys[i]), ".") + " (key)"
			}
			seg = a.Keys[i]
		}
		if d := wordsDiff(a.Kids[i], b.Kids[i], append(path, seg), in); d != "" {
			return d
		}
	}
	return ""
}

const wordsRule = "; words in other roles: each of 37 words of the command vocabulary (verbs, collection, ns, $db, q, u, c, multi, upsert, limit, hint ...) as a plain attribute next to attr.ns and as a user field in filter / q / u / $set / inserted documents / WRITE lines"
