//go:build verif

package main

// Generic replay of recorded violations (bin/check replay <file>): re-executes the recorded case on the
// current tree without the explorer and reports whether the violating behaviour is still there.

import (
	"fmt"
	"strconv"
	"strings"
)

// parseFlagsString inverts Flags.String().
func parseFlagsString(s string) (Flags, error) {
	var f Flags
	s = strings.TrimSpace(s)
	for s != "" && s != "-" {
		switch {
		case strings.HasPrefix(s, "R="):
			q, err := strconv.QuotedPrefix(s[2:])
			if err != nil {
				return f, err
			}
			v, _ := strconv.Unquote(q)
			if v == "" {
				f.REmpty = true
			} else {
				f.R = v
			}
			s = s[2+len(q):]
		default:
			i := strings.IndexByte(s, ' ')
			tok := s
			if i >= 0 {
				tok, s = s[:i], s[i:]
			} else {
				s = ""
			}
			switch {
			case tok == "N":
				f.N = true
			case tok == "B":
				f.B = true
			case tok == "I":
				f.I = true
			case tok == "W":
				f.W = true
			case tok == "Y":
				f.Y = true
			case strings.HasPrefix(tok, "F="):
				f.F = strings.Split(tok[2:], ",")
			case strings.HasPrefix(tok, "Z="):
				f.Z = tok[2:]
			default:
				return f, fmt.Errorf("unknown flag token %q", tok)
			}
		}
		s = strings.TrimSpace(s)
	}
	return f, nil
}

func str(m map[string]any, k string) string {
	v, _ := m[k].(string)
	return v
}

// genericReplay handles every record that carries the concrete input line(s) and the flag set: the case
// reproduces if the current tree still yields the recorded violating output.
func genericReplay(c *Ctx, prop string, r map[string]any) (handled bool, reproduced bool) {
	fl, err := parseFlagsString(str(r, "flags"))
	if err != nil {
		return false, false
	}
	show := func(label, s string) { fmt.Printf("  %-22s %s\n", label+":", trunc(s, 1500)) }
	run := func(line string, f Flags) string {
		f.Apply()
		out, ok, pv := redactLine(line)
		switch {
		case pv != nil:
			return fmt.Sprintf("PANIC: %v", pv)
		case !ok:
			return "REJECTED"
		}
		return out
	}
	defer Flags{}.Apply()
	if ls, ok := r["lines"].([]any); ok && len(ls) > 0 && str(r, "got") != "" { // a sequence of lines through the stream code
		var lines []string
		for _, l := range ls {
			if t, ok := l.(string); ok {
				lines = append(lines, t)
			}
		}
		fl.Apply()
		out, err, pv := c06RunInproc(strings.Join(lines, "\n")+"\n", len(lines), "reader", "nobar")
		show("flags", fl.String())
		for i, l := range lines {
			show(fmt.Sprintf("line %d", i), l)
		}
		show("expected (fresh runs)", str(r, "expected"))
		show("recorded output", str(r, "got"))
		show("output now", fmt.Sprintf("%s (err %v, panic %v)", out, err, pv))
		return true, out != str(r, "expected")
	}
	switch {
	case str(r, "line_b") != "": // C02: two lines that differ in redacted values only
		a, b := run(str(r, "input"), fl), run(str(r, "line_b"), fl)
		show("flags", fl.String())
		show("line A", str(r, "input"))
		show("line B", str(r, "line_b"))
		show("output A", a)
		show("output B", b)
		return true, a != b
	case str(r, "pass1") != "": // C19: two passes
		p1 := run(str(r, "input"), fl)
		p2 := run(p1, fl)
		show("flags", fl.String())
		show("input", str(r, "input"))
		show("pass 1", p1)
		show("pass 2", p2)
		return true, p1 != p2
	case str(r, "enc") != "": // C10: placeholder vs encrypt mode; the record holds both outputs
		fe := fl
		fp := fl
		fp.Y = false
		p, e := run(str(r, "input"), fp), run(str(r, "input"), fe)
		show("input", str(r, "input"))
		show("placeholder mode", p)
		show("encrypt mode", e)
		return true, p == str(r, "plain") && e == str(r, "enc")
	case str(r, "line") != "" && str(r, "kind") == "c07line":
		out := run(str(r, "line"), fl)
		show("flags", fl.String())
		show("line", fmt.Sprintf("%q", str(r, "line")))
		show("result", out)
		k, _ := c07Check(str(r, "line"))
		return true, k != ""
	case str(r, "input") != "" && str(r, "output") != "":
		out := run(str(r, "input"), fl)
		show("flags", fl.String())
		show("input", str(r, "input"))
		show("recorded output", str(r, "output"))
		show("output now", out)
		return true, out == str(r, "output")
	case str(r, "input") != "" && str(r, "key_len") == "":
		out := run(str(r, "input"), fl)
		show("flags", fl.String())
		show("input", str(r, "input"))
		show("output now", out)
		return true, false
	}
	return false, false
}

func intOf(v any) int {
	switch x := v.(type) {
	case float64:
		return int(x)
	case int:
		return x
	}
	return 0
}

func intsOf(v any) []int {
	var out []int
	if a, ok := v.([]any); ok {
		for _, x := range a {
			out = append(out, intOf(x))
		}
	}
	return out
}

// specificReplay re-executes records that are parameter vectors of a driver (CLI combinations, key-file
// traces, fault positions, Atlas scripts).
func specificReplay(c *Ctx, prop string, r map[string]any) (handled bool, reproduced bool) {
	before := len(c.P.Viols)
	switch str(r, "kind") {
	case "keyfile-trace":
		for _, in := range c11Inits() {
			if in.name == str(r, "init") {
				c11Trace(c, in, intsOf(r["ops"]), c.Scratch)
				handled = true
			}
		}
	case "atlas-script":
		// the script is re-generated from its choice vector; the generator options are tried in the order the
		// checks use them until one accepts the vector
		for _, o := range []atlasGenOpts{{MaxHosts: 4, HostNames: 1}, {MaxHosts: 3, HostNames: 0, Supplies: true}, {MaxHosts: 3, HostNames: 0}, {MaxHosts: 5, SuccessOnly: true, HostNames: 1}, {MaxHosts: 5, SuccessOnly: true, HostNames: 0}} {
			var run *atlasRun
			ok := func() (ok bool) {
				defer func() {
					if recover() != nil {
						ok = false
					}
				}()
				Explore(func(x *X) { run = genAtlasRun(x, o) }, ExploreOpts{Bound: -1, Prefix: intsOf(r["choices"]), Only: true}, func(x *X) {})
				return run != nil
			}()
			if !ok || run.String() != str(r, "script") {
				continue
			}
			var ob *atlasObs
			if str(r, "level") == "cli" {
				ob, _ = execAtlasCLI(c, run, freshDir(c.Scratch, "replay"))
			} else {
				ob = execAtlasLib(run, freshDir(c.Scratch, "replay"))
			}
			if ob == nil {
				return true, false
			}
			fmt.Printf("  script:   %s\n  requests: %s\n  exit %d; files left in TMPDIR: %d; stderr: %s\n", run, reqSummary(ob.Reqs), ob.Exit, len(ob.TmpLeft), trunc(ob.Stderr, 300))
			sig, _ := checkRequests(run, ob)
			leak := findKey(ob.Stdout+ob.Stderr) != ""
			for _, q := range ob.Reqs {
				if q.Auth != "" && q.Auth != "digest-ok" {
					leak = true
				}
			}
			_, _, success, _ := run.model()
			return true, sig != "" || len(ob.TmpLeft) > 0 || leak || success != (ob.Exit == 0)
		}
		return true, false
	}
	return handled, len(c.P.Viols) > before
}
