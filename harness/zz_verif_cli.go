//go:build verif

package main

// CLI runner (DESIGN.md 2.7): runs the pristine binary (or the harness binary in child-cli mode) in
// a sandbox directory with a scrubbed environment and records everything observable.

import (
	"bytes"
	"crypto/sha256"
	"fmt"
	"io/fs"
	"os"
	"os/exec"
	"path/filepath"
	"sort"
	"syscall"
	"time"
)

type CLIRun struct {
	Bin        string
	Args       []string
	StdinMode  string // "null" (default, character device), "pipe", "file"
	Stdin      []byte
	Env        []string // extra environment
	Dir        string
	TmpDir     string
	Timeout    time.Duration
	StdoutTo   string   // "" = capture; path = open that path for writing (e.g. /dev/full)
	StdoutFile *os.File // if set, the child writes its stdout there
}

type CLIRes struct {
	Exit     int
	Signal   string
	Stdout   []byte
	Stderr   []byte
	TimedOut bool
}

func runCLI(r CLIRun) (CLIRes, error) {
	var res CLIRes
	cmd := exec.Command(r.Bin, r.Args...)
	cmd.Dir = r.Dir
	tmp := r.TmpDir
	if tmp == "" {
		tmp = r.Dir
	}
	cmd.Env = append([]string{"PATH=/usr/bin:/bin", "HOME=" + r.Dir, "TMPDIR=" + tmp, "TERM=dumb", "LANG=C"}, r.Env...)
	var so, se bytes.Buffer
	cmd.Stderr = &se
	var closers []*os.File
	defer func() {
		for _, f := range closers {
			f.Close()
		}
	}()
	if r.StdoutFile != nil {
		cmd.Stdout = r.StdoutFile
	} else if r.StdoutTo != "" {
		f, err := os.OpenFile(r.StdoutTo, os.O_WRONLY, 0)
		if err != nil {
			return res, err
		}
		closers = append(closers, f)
		cmd.Stdout = f
	} else {
		cmd.Stdout = &so
	}
	switch r.StdinMode {
	case "", "null":
		f, err := os.Open("/dev/null")
		if err != nil {
			return res, err
		}
		closers = append(closers, f)
		cmd.Stdin = f
	case "pipe":
		cmd.Stdin = bytes.NewReader(r.Stdin)
	case "file":
		p := filepath.Join(r.Dir, ".stdin")
		if err := os.WriteFile(p, r.Stdin, 0o644); err != nil {
			return res, err
		}
		f, err := os.Open(p)
		if err != nil {
			return res, err
		}
		closers = append(closers, f)
		cmd.Stdin = f
	}
	to := r.Timeout
	if to == 0 {
		to = 60 * time.Second
	}
	if err := cmd.Start(); err != nil {
		return res, err
	}
	done := make(chan error, 1)
	go func() { done <- cmd.Wait() }()
	var err error
	select {
	case err = <-done:
	case <-time.After(to):
		cmd.Process.Kill()
		err = <-done
		res.TimedOut = true
	}
	res.Stdout, res.Stderr = so.Bytes(), se.Bytes()
	if err != nil {
		if ee, ok := err.(*exec.ExitError); ok {
			res.Exit = ee.ExitCode()
			if ws, ok := ee.Sys().(syscall.WaitStatus); ok && ws.Signaled() {
				res.Signal = ws.Signal().String()
			}
		} else {
			return res, err
		}
	}
	return res, nil
}

// snapshot of a directory tree: path -> "type mode size sha256"
func snapshotDir(root string, skip map[string]bool) map[string]string {
	out := map[string]string{}
	filepath.WalkDir(root, func(p string, d fs.DirEntry, err error) error {
		if err != nil {
			return nil
		}
		rel, _ := filepath.Rel(root, p)
		if rel == "." || skip[rel] {
			return nil
		}
		info, err := d.Info()
		if err != nil {
			return nil
		}
		if d.IsDir() {
			out[rel] = fmt.Sprintf("dir %o", info.Mode().Perm())
			return nil
		}
		if !info.Mode().IsRegular() {
			t, _ := os.Readlink(p)
			out[rel] = fmt.Sprintf("special %v %s", info.Mode().Type(), t) // never read through links or devices
			return nil
		}
		b, _ := os.ReadFile(p)
		out[rel] = fmt.Sprintf("file %o %d %x", info.Mode().Perm(), len(b), sha256.Sum256(b))
		return nil
	})
	return out
}

func snapshotDiff(a, b map[string]string) []string {
	var d []string
	for k, v := range a {
		if w, ok := b[k]; !ok {
			d = append(d, "removed "+k)
		} else if w != v {
			d = append(d, "changed "+k)
		}
	}
	for k := range b {
		if _, ok := a[k]; !ok {
			d = append(d, "created "+k)
		}
	}
	sort.Strings(d)
	return d
}

func freshDir(base, name string) string {
	p := filepath.Join(base, name)
	os.RemoveAll(p)
	os.MkdirAll(p, 0o755)
	return p
}
