//go:build verif

package main

// C08 — I/O failures are reported, never turned into silent truncation.  Fault-injecting reader /
// writer / damaged gzip streams drive the real stream code; the explorer's choice points are "what
// does the k-th Read / Write return" (default = success), enumerated with deviation bound 1 and 2.

import (
	"bytes"
	"compress/gzip"
	"context"
	"errors"
	"fmt"
	"io"
	"os"
	"path/filepath"
	"strings"
	"syscall"
)

var errInjected = errors.New("injected I/O error")

// ---- fault-injecting reader: delivers data in chunks; the failAt-th Read call (0-based) fails,
// either cleanly (0, err) or together with the data of that call (n, err).
type faultReader struct {
	data     []byte
	chunk    int
	failAt   int
	withData bool
	calls    int
	pos      int
	failed   bool
	err      error // what the failing Read returns (nil = errInjected)
}

// c08ReadErrors: what a failing Read can return.  None of them is "end of input".
var c08ReadErrors = []struct {
	name string
	err  error
}{
	{"a plain error", nil},
	{"io.ErrUnexpectedEOF", io.ErrUnexpectedEOF},
	{"EIO as os.File wraps it", &os.PathError{Op: "read", Path: "in.log", Err: syscall.EIO}},
	{"ECONNRESET", syscall.ECONNRESET},
	{"EAGAIN", syscall.EAGAIN},
	{"EINTR", syscall.EINTR},
	{"io.ErrClosedPipe", io.ErrClosedPipe},
	{"os.ErrClosed", os.ErrClosed},
	{"io.ErrNoProgress", io.ErrNoProgress},
	{"context.Canceled", context.Canceled},
	{"os.ErrDeadlineExceeded", os.ErrDeadlineExceeded},
	{"an error that wraps io.EOF", fmt.Errorf("transfer closed with outstanding read data remaining: %w", io.EOF)},
}

func (r *faultReader) fail() error {
	if r.err != nil {
		return r.err
	}
	return errInjected
}

func (r *faultReader) Read(p []byte) (int, error) {
	call := r.calls
	r.calls++
	if r.failed {
		return 0, r.fail()
	}
	n := r.chunk
	if n > len(p) {
		n = len(p)
	}
	if n > len(r.data)-r.pos {
		n = len(r.data) - r.pos
	}
	if call == r.failAt {
		r.failed = true
		if r.withData && n > 0 {
			copy(p, r.data[r.pos:r.pos+n])
			r.pos += n
			return n, r.fail()
		}
		return 0, r.fail()
	}
	if n == 0 {
		return 0, io.EOF
	}
	copy(p, r.data[r.pos:r.pos+n])
	r.pos += n
	return n, nil
}
func (r *faultReader) Close() error { return nil }

type faultFR struct {
	r   io.ReadCloser
	ext string
}

func (f *faultFR) Open(string) (io.ReadCloser, error) { return f.r, nil }
func (f *faultFR) GetExtension(string) string         { return f.ext }

// ---- fault-injecting writer
type faultWriter struct {
	failAt     int // 0-based index of the Write call that fails (-1 = never)
	mode       int // 0 = error without accepting anything, 1 = one byte short, 2 = half
	later      int // 0 = later writes succeed, 1 = later writes fail too
	calls      int
	accepted   bytes.Buffer
	faulted    bool
	afterFault int   // Write calls made after the first fault
	err        error // the error a failing Write returns (nil = errInjected)
}

// c08WriteErrors: what a failing Write can return.  Which error it is must not matter: a failed write is a failed run.
var c08WriteErrors = []struct {
	name string
	err  error
}{
	{"a plain error", nil},
	{"EPIPE (the consumer went away)", syscall.EPIPE},
	{"a *PathError wrapping EPIPE, as os.File returns it", &os.PathError{Op: "write", Path: "/dev/stdout", Err: syscall.EPIPE}},
	{"ENOSPC", &os.PathError{Op: "write", Path: "out.log", Err: syscall.ENOSPC}},
	{"EIO", syscall.EIO},
	{"EAGAIN", syscall.EAGAIN},
	{"EINTR", syscall.EINTR},
	{"io.ErrClosedPipe", io.ErrClosedPipe},
	{"os.ErrClosed", os.ErrClosed},
	{"io.EOF", io.EOF},
	{"io.ErrShortWrite", io.ErrShortWrite},
	{"context.Canceled", context.Canceled},
	{"os.ErrDeadlineExceeded", os.ErrDeadlineExceeded},
}

func (w *faultWriter) fail() error {
	if w.err != nil {
		return w.err
	}
	return errInjected
}

func (w *faultWriter) Write(p []byte) (int, error) {
	call := w.calls
	w.calls++
	if w.faulted {
		w.afterFault++
		if w.later == 1 {
			return 0, w.fail()
		}
		w.accepted.Write(p)
		return len(p), nil
	}
	if call == w.failAt {
		w.faulted = true
		switch w.mode {
		case 1:
			if len(p) > 0 {
				w.accepted.Write(p[:len(p)-1])
				return len(p) - 1, io.ErrShortWrite
			}
		case 2:
			w.accepted.Write(p[:len(p)/2])
			return len(p) / 2, io.ErrShortWrite
		}
		return 0, w.fail()
	}
	w.accepted.Write(p)
	return len(p), nil
}

// c08Input: command lines, other-component lines, garbage and blanks; nLines controls the size.
func c08Input(n int) []string {
	alpha := c06Alphabet()
	var ls []string
	for i := 0; i < n; i++ {
		switch i % 6 {
		case 0:
			ls = append(ls, alpha[0].Text)
		case 1:
			ls = append(ls, alpha[2].Text)
		case 2:
			ls = append(ls, alpha[1].Text)
		case 3:
			ls = append(ls, "this is not JSON at all")
		case 4:
			ls = append(ls, fmt.Sprintf(`{"t":{"$date":"2024-05-01T10:00:00.000+00:00"},"s":"I","c":"COMMAND","id":%d,"ctx":"conn%d","msg":"Slow query","attr":{"ns":"db.c","command":{"find":"c","filter":{"name":"person %d","tags":{"$in":["a","b",{"k":[1,2,{"deep":"x%d"}]}]}},"$db":"db"},"durationMillis":%d}}`, 51803+i, i, i, i, i))
		default:
			ls = append(ls, "")
		}
	}
	return ls
}

// c08Reference: the fault-free output, computed WITHOUT the stream code: the text is cut into lines here, every line
// is redacted on its own, and a line beyond the reader's limit ends the output (everything before it stays).
func c08Reference(text string) (string, []string) {
	Flags{}.Apply()
	var sb strings.Builder
	var lines []string
	for _, l := range strings.Split(text, "\n") {
		l = strings.TrimSuffix(l, "\r")
		if len(l) >= 64*1024 {
			break
		}
		if o, ok, pv := redactLine(l); pv == nil && ok {
			lines = append(lines, o+"\n")
			sb.WriteString(o + "\n")
		}
	}
	return sb.String(), lines
}

// c08StreamFaultFree: what the stream code itself writes for the text when nothing fails (an over-long line makes it
// return an error; the lines before that line must have been written all the same).
func c08StreamFaultFree(text string) string {
	var out bytes.Buffer
	Flags{}.Apply()
	_ = ProcessMongoLogFileFromReader(strings.NewReader(text), &out, nil)
	return out.String()
}

// wholeLinePrefix: is got the concatenation of the first m reference lines for some m?
func wholeLinePrefix(got string, ref []string) (int, bool) {
	pos := 0
	for m := 0; ; m++ {
		if pos == len(got) {
			return m, true
		}
		if m >= len(ref) || !strings.HasPrefix(got[pos:], ref[m]) {
			return m, false
		}
		pos += len(ref[m])
	}
}

func c08RunStream(ch string, r io.ReadCloser, w io.Writer) (err error, pv any) {
	defer func() {
		if x := recover(); x != nil {
			pv = x
		}
	}()
	switch ch {
	case "reader":
		return ProcessMongoLogFileFromReader(r, w, nil), nil
	case "file":
		return ProcessMongoLogFile(&faultFR{r, ".log"}, "in.log", w, nil), nil
	default:
		return ProcessMongoLogFile(&faultFR{r, ".gz"}, "in.log.gz", w, nil), nil
	}
}

func c08Run(c *Ctx) {
	Flags{}.Apply()
	var caseNo int64
	// sizes 6 and 40: ordinary lines; -1 / -2: six lines with a 70 000- / 200 000-byte line in fourth position (longer
	// than the reader's line limit: the run must fail anyway, and a Read that fails INSIDE that line must not turn the
	// failure into success)
	// size 1500: far more output than any buffer a writer might put in front of the destination (about 300 KB) before the
	// fault arrives; sparser fault positions
	sizes := []int{6, 40, -1, -2, 1500}
	for _, nl := range sizes {
		lines := c08Input(nl)
		if nl < 0 {
			lines = c08Input(6)
			long := `{"t":{"$date":"2024-05-01T10:00:00.000+00:00"},"s":"I","c":"COMMAND","id":51803,"ctx":"conn9","msg":"Slow query","attr":{"ns":"db.c","command":{"find":"c","filter":{"blob":"` + strings.Repeat("long line payload ", map[int]int{-1: 3900, -2: 11200}[nl]) + `"},"$db":"db"}}}`
			lines = append(append(append([]string{}, lines[:3]...), long), lines[3:]...)
		}
		for _, final := range []bool{true, false} {
			text := strings.Join(lines, "\n")
			if final {
				text += "\n"
			}
			refOut, refLines := c08Reference(text)
			if len(refLines) == 0 {
				c.HarnessError("C08: empty reference output")
				return
			}
			if got := c08StreamFaultFree(text); got != refOut {
				m, _ := wholeLinePrefix(got, refLines)
				c.Violate("no-fault:output-is-not-the-lines-before-the-failure", fmt.Sprintf("%d-line input (final newline %v) without any injected fault: the stream code wrote %d bytes, the lines redacted one by one (up to a line beyond the reader's limit, if any) are %d bytes; the first %d lines agree", nl, final, len(got), len(refOut), m), int64(m),
					map[string]any{"kind": "c08-no-fault", "lines": nl, "final_newline": final}, nil)
			}
			// ---------------- reader faults
			chunks := []int{1, 7, 512, 4096}
			if nl < 0 {
				chunks = []int{4096, 65536, 1000}
				if !c.Thorough() {
					chunks = []int{4096, 65536}
				}
			}
			if nl > 6 {
				chunks = []int{7, 512, 4096}
				if !c.Thorough() {
					chunks = []int{512, 4096}
				}
			}
			if nl >= 1000 {
				chunks = []int{65536, 4096}
			}
			for _, chunk := range chunks {
				nreads := (len(text)+chunk-1)/chunk + 1
				for k := 0; k < nreads; k++ {
					caseNo++
					if !c.Mine(caseNo) {
						continue
					}
					nErr := 1
					if chunk == chunks[min(1, len(chunks)-1)] {
						nErr = len(c08ReadErrors) // which error it is: at one chunk size
					}
					for ei := 0; ei < 2*nErr; ei++ {
						withData := ei%2 == 1
						for _, ch := range []string{"reader", "file"} {
							fr := &faultReader{data: []byte(text), chunk: chunk, failAt: k, withData: withData, err: c08ReadErrors[ei/2].err}
							var out bytes.Buffer
							err, pv := c08RunStream(ch, fr, &out)
							c.Eval(1)
							c.Distinct(fmt.Sprintf("read %d/%v chunk %d k %d %v %s %d", nl, final, chunk, k, withData, ch, ei/2))
							if !fr.failed {
								continue // the stream ended before the k-th read
							}
							desc := fmt.Sprintf("%d-line input (final newline %v), channel %s, chunk size %d, Read call #%d fails with %s (data with the error: %v)", nl, final, ch, chunk, k, c08ReadErrors[ei/2].name, withData)
							rp := map[string]any{"kind": "read-fault", "lines": nl, "final_newline": final, "chunk": chunk, "fail_at": k, "with_data": withData, "channel": ch}
							switch {
							case pv != nil:
								c.Outcome("panic")
								c.Violate("read-fault:panic", desc+": panic "+trunc(fmt.Sprint(pv), 100), int64(k), rp, nil)
							case err == nil:
								c.Outcome("read-error-swallowed")
								c.Violate("read-fault:success-reported:"+ch, desc+": the run returns nil although a Read failed", int64(k), rp, nil)
							default:
								c.Outcome("read-error-reported")
							}
							if m, ok := wholeLinePrefix(out.String(), refLines); !ok {
								c.Outcome("not-a-prefix")
								rest := out.String()
								for _, l := range refLines[:m] {
									rest = rest[len(l):]
								}
								c.Violate("read-fault:not-a-whole-line-prefix:"+ch, fmt.Sprintf("%s: after %d correct lines the output continues with %q, which is not the next fault-free line %q", desc, m, trunc(rest, 160), trunc(refAt(refLines, m), 160)), int64(k), rp, nil)
							}
						}
					}
				}
			}
			// ---------------- writer faults: explorer over (k-th write outcome), deviation bound 1 / 2
			nw := len(refLines)
			for k := 0; k < nw; k++ {
				if nl >= 1000 && k%97 != 0 && k != nw-1 {
					continue
				}
				caseNo++
				if !c.Mine(caseNo) {
					continue
				}
				for mode := 0; mode < 3+len(c08WriteErrors)-1; mode++ {
					if nl >= 1000 && mode >= 3 {
						break
					}
					for later := 0; later < 2; later++ {
						for _, ch := range []string{"reader", "file", "gzip"} {
							var rd io.ReadCloser = io.NopCloser(strings.NewReader(text))
							if ch == "gzip" {
								rd = io.NopCloser(bytes.NewReader(gz([]byte(text))))
							}
							fw := &faultWriter{failAt: k, mode: mode, later: later}
							modeDesc := []string{"fails", "is one byte short", "accepts half"}[min(mode, 2)]
							modeName := ""
							if mode >= 3 {
								// modes 3..: the write fails outright, with each of the other error values
								fw.mode, fw.err = 0, c08WriteErrors[mode-2].err
								modeName = "fails with " + c08WriteErrors[mode-2].name
								modeDesc = modeName
							}
							err, pv := c08RunStream(ch, rd, fw)
							c.Eval(1)
							c.Distinct(fmt.Sprintf("write %d/%v k %d mode %d later %d %s", nl, final, k, mode, later, ch))
							if !fw.faulted {
								continue
							}
							desc := fmt.Sprintf("%d-line input, channel %s, Write call #%d %s, later writes %s", nl, ch, k, modeDesc, []string{"succeed", "fail"}[later])
							rp := map[string]any{"kind": "write-fault", "lines": nl, "final_newline": final, "fail_at": k, "mode": mode, "later": later, "channel": ch}
							switch {
							case pv != nil:
								c.Outcome("panic")
								c.Violate("write-fault:panic", desc+": panic "+trunc(fmt.Sprint(pv), 100), int64(k), rp, nil)
							case err == nil:
								c.Outcome("write-error-swallowed")
								c.Violate("write-fault:success-reported", desc+": the run returns nil although a Write failed", int64(k), rp, nil)
							default:
								c.Outcome("write-error-reported")
							}
							if !strings.HasPrefix(refOut, fw.accepted.String()) {
								c.Outcome("gap-in-output")
								c.Violate("write-fault:output-not-a-prefix", desc+": the bytes accepted by the writer are not a prefix of the fault-free output (writing went on after the failed write)", int64(k), rp, nil)
							}
						}
					}
				}
			}
			// ---------------- damaged gzip streams
			for mi, zb := range c08Archives(text) {
				stride := 1
				if (nl > 6 || nl < 0) && !c.Thorough() {
					stride = 7
				}
				if nl >= 1000 {
					stride = 997
				}
				for off := 0; off < len(zb); off += stride {
					caseNo++
					if !c.Mine(caseNo) {
						continue
					}
					var variants [][]byte
					var names []string
					variants, names = append(variants, zb[:off]), append(names, fmt.Sprintf("cut at byte %d of %d", off, len(zb)))
					fl := append([]byte(nil), zb...)
					fl[off] ^= 0xff
					variants, names = append(variants, fl), append(names, fmt.Sprintf("byte %d XOR 0xff", off))
					if c.Thorough() || nl == 6 {
						for bit := 0; bit < 8; bit++ {
							f2 := append([]byte(nil), zb...)
							f2[off] ^= 1 << bit
							variants, names = append(variants, f2), append(names, fmt.Sprintf("byte %d bit %d flipped", off, bit))
						}
					}
					for vi, dmg := range variants {
						// independent reading of the same damaged bytes
						var delivered []byte
						var gzErr error
						if zr, err := gzip.NewReader(bytes.NewReader(dmg)); err != nil {
							gzErr = err
						} else {
							delivered, gzErr = io.ReadAll(zr)
						}
						var out bytes.Buffer
						err, pv := c08RunStream("gzip", io.NopCloser(bytes.NewReader(dmg)), &out)
						c.Eval(1)
						c.Distinct(fmt.Sprintf("gz %d/%v %d %s", nl, final, mi, names[vi]))
						desc := fmt.Sprintf("%d-line input as gzip (%s), %s", nl, []string{"one member", "three members"}[mi], names[vi])
						rp := map[string]any{"kind": "gzip-damage", "lines": nl, "final_newline": final, "damage": names[vi]}
						if pv != nil {
							c.Outcome("panic")
							c.Violate("gzip:panic", desc+": panic "+trunc(fmt.Sprint(pv), 100), int64(off), rp, nil)
							continue
						}
						if gzErr != nil {
							if err == nil {
								c.Outcome("gzip-error-swallowed")
								c.Violate("gzip:success-reported", fmt.Sprintf("%s: an independent gzip reader fails (%v) but the run returns nil", desc, gzErr), int64(off), rp, nil)
							} else {
								c.Outcome("gzip-error-reported")
							}
							// complete lines among the delivered bytes are the most the output may hold
							// cut stream: the delivered bytes are a prefix of the real text, so the output must be a
							// whole-line prefix of the fault-free lines; flipped bytes: the decompressor may deliver
							// garbage before it notices, so "fault-free" is the redaction of what was delivered
							dl := refLines
							if vi > 0 {
								_, dl = c08Reference(string(delivered))
							}
							if m, ok := wholeLinePrefix(out.String(), dl); !ok {
								c.Outcome("not-a-prefix")
								if dd := os.Getenv("VERIF_DEBUG_C08"); dd != "" {
									os.WriteFile(filepath.Join(dd, fmt.Sprintf("dbg_%d_%d_delivered", nl, off)), delivered, 0o644)
									os.WriteFile(filepath.Join(dd, fmt.Sprintf("dbg_%d_%d_out", nl, off)), out.Bytes(), 0o644)
									os.WriteFile(filepath.Join(dd, fmt.Sprintf("dbg_%d_%d_ref", nl, off)), []byte(strings.Join(dl, "")), 0o644)
								}
								c.Violate("gzip:not-a-whole-line-prefix", fmt.Sprintf("%s: after %d correct lines the output holds something that is not the redaction of a complete delivered line: %q [delivered %d bytes, %d reference lines, next reference line %q, output %d bytes]", desc, m, trunc(lastLine(out.String()), 200), len(delivered), len(dl), trunc(refAt(dl, m), 200), out.Len()), int64(off), rp, nil)
							}
						} else {
							exp, _ := c08Reference(string(delivered))
							if err != nil {
								c.Outcome("valid-stream-rejected")
								c.Note("a damaged but still valid gzip stream (%s) is rejected by the run: %v (accepted, not a violation)", names[vi], err)
							} else if out.String() != exp {
								c.Outcome("valid-stream-wrong-output")
								c.Violate("gzip:wrong-output", desc+": the stream is still valid for an independent reader but the output differs from the redaction of its content", int64(off), rp, nil)
							} else {
								c.Outcome("gzip-still-valid")
							}
						}
					}
				}
			}
		}
	}
	if c.Shard == 0 {
		c.Sample(map[string]any{"fault": "Read call #3 of a 6-line input fails (chunk size 512, data returned with the error)", "expected": "error returned; output = whole-line prefix of the fault-free output"})
		c.Sample(map[string]any{"fault": "Write call #2 accepts half of the line, later writes succeed", "expected": "error returned; accepted bytes are a byte prefix of the fault-free output"})
		c.Sample(map[string]any{"fault": "gzip stream of the 40-line input cut at byte offset 100", "expected": "error returned; output = whole-line prefix"})
	}
	c08CLI(c)
}

// c08Archives: the text as a one-member archive and as three members (the first ends at a line end, the second inside
// a line): damage to the header of a LATER member is damage all the same
func c08Archives(text string) [][]byte {
	a := strings.Index(text, "\n") + 1
	b := a + (len(text)-a)/2
	if a <= 0 || b <= a || b >= len(text) {
		return [][]byte{gz([]byte(text))}
	}
	return [][]byte{gz([]byte(text)), gzBytes([]byte(text[:a]), []byte(text[a:b]), []byte(text[b:]))}
}

func refAt(ref []string, m int) string {
	if m < len(ref) {
		return ref[m]
	}
	return "<end of output>"
}

func lastLine(s string) string {
	s = strings.TrimSuffix(s, "\n")
	if i := strings.LastIndexByte(s, '\n'); i >= 0 {
		return s[i+1:]
	}
	return s
}

// c08CLI: real devices through the pristine binary.
func c08CLI(c *Ctx) {
	dir := freshDir(c.Scratch, "c08cli")
	lines := c08Input(40)
	text := strings.Join(lines, "\n") + "\n"
	in := filepath.Join(dir, "in.log")
	os.WriteFile(in, []byte(text), 0o644)
	inGz := filepath.Join(dir, "in.log.gz")
	zb := gz([]byte(text))
	os.WriteFile(inGz, zb, 0o644)
	ref, err := runCLI(CLIRun{Bin: c.CLI, Args: []string{"redact", in}, Dir: dir})
	if err != nil || ref.Exit != 0 || len(ref.Stdout) == 0 {
		c.HarnessError("C08 CLI reference run failed: %v exit %d", err, ref.Exit)
		return
	}
	_, refLines := c08Reference(text)
	if c.Shard == 0 {
		type dev struct {
			name string
			run  CLIRun
		}
		devs := []dev{
			{"stdout=/dev/full, file input", CLIRun{Bin: c.CLI, Args: []string{"redact", in}, Dir: dir, StdoutTo: "/dev/full"}},
			{"stdout=/dev/full, gzip input", CLIRun{Bin: c.CLI, Args: []string{"redact", inGz}, Dir: dir, StdoutTo: "/dev/full"}},
			{"stdout=/dev/full, stdin input", CLIRun{Bin: c.CLI, Args: []string{"redact"}, Dir: dir, StdoutTo: "/dev/full", StdinMode: "pipe", Stdin: []byte(text)}},
			{"--outputFile /dev/full", CLIRun{Bin: c.CLI, Args: []string{"redact", in, "--outputFile", "/dev/full"}, Dir: dir}},
			{"--outputFile /dev/full, gzip input", CLIRun{Bin: c.CLI, Args: []string{"redact", inGz, "-o", "/dev/full"}, Dir: dir}},
		}
		for _, d := range devs {
			r, err := runCLI(d.run)
			c.Eval(1)
			c.Count("cli_runs", 1)
			c.Distinct("dev " + d.name)
			if err != nil {
				c.HarnessError("C08 CLI: %v", err)
				return
			}
			if r.Exit == 0 && r.Signal == "" {
				c.Outcome("device-error-swallowed")
				c.Violate("cli:disk-full:exit-0", fmt.Sprintf("%s: every write fails with ENOSPC but the run exits 0 (stderr %q)", d.name, trunc(string(r.Stderr), 120)), 0, map[string]any{"kind": "cli-device", "device": d.name, "args": d.run.Args}, nil)
			} else {
				c.Outcome("device-error-reported")
			}
		}
		// the same devices at growing volumes: output buffers of any size are flushed (and fail) mid-run from some
		// volume on, and only then does a forgotten error of a NON-final flush show
		for _, vol := range []int{1, 50, 400, 2000, 6000, 20000} {
			if vol > 6000 && !c.Thorough() {
				continue
			}
			big := strings.Join(c08Input(vol), "\n") + "\n"
			bigPath := filepath.Join(dir, "big.log")
			os.WriteFile(bigPath, []byte(big), 0o644)
			for _, d := range []dev{
				{"stdout=/dev/full, file input", CLIRun{Bin: c.CLI, Args: []string{"redact", bigPath}, Dir: dir, StdoutTo: "/dev/full"}},
				{"--outputFile /dev/full, file input", CLIRun{Bin: c.CLI, Args: []string{"redact", bigPath, "--outputFile", "/dev/full"}, Dir: dir}},
				{"--outputFile /dev/full, stdin input", CLIRun{Bin: c.CLI, Args: []string{"redact", "--outputFile", "/dev/full"}, Dir: dir, StdinMode: "pipe", Stdin: []byte(big)}},
				{"stdout=/dev/full, stdin input", CLIRun{Bin: c.CLI, Args: []string{"redact"}, Dir: dir, StdoutTo: "/dev/full", StdinMode: "pipe", Stdin: []byte(big)}},
			} {
				r, err := runCLI(d.run)
				c.Eval(1)
				c.Count("cli_runs", 1)
				c.Distinct(fmt.Sprintf("dev %s x %d lines", d.name, vol))
				if err != nil {
					c.HarnessError("C08 CLI: %v", err)
					return
				}
				if r.Exit == 0 && r.Signal == "" {
					c.Outcome("device-error-swallowed")
					c.Violate("cli:disk-full:exit-0", fmt.Sprintf("%s, %d input lines (%d bytes): every write fails with ENOSPC but the run exits 0 (stderr %q)", d.name, vol, len(big), trunc(string(r.Stderr), 120)), int64(vol), map[string]any{"kind": "cli-device", "device": d.name, "lines": vol}, nil)
				} else {
					c.Outcome("device-error-reported")
				}
			}
		}
		// input / output paths that cannot be read or written at all
		os.Mkdir(filepath.Join(dir, "a-directory"), 0o755)
		os.Mkdir(filepath.Join(dir, "a-directory.gz"), 0o755)
		os.Symlink(filepath.Join(dir, "nowhere"), filepath.Join(dir, "dangling.log"))
		for _, pe := range []struct {
			name string
			args []string
		}{
			{"input is a directory", []string{"redact", filepath.Join(dir, "a-directory")}},
			{"input is a directory named *.gz", []string{"redact", filepath.Join(dir, "a-directory.gz")}},
			{"input does not exist", []string{"redact", filepath.Join(dir, "no-such-file.log")}},
			{"input is a dangling symbolic link", []string{"redact", filepath.Join(dir, "dangling.log")}},
			{"input is an empty .gz file", []string{"redact", filepath.Join(dir, "empty.log.gz")}},
			{"--outputFile is a directory", []string{"redact", in, "--outputFile", filepath.Join(dir, "a-directory")}},
			{"--outputFile lies in a directory that does not exist", []string{"redact", in, "--outputFile", filepath.Join(dir, "no", "such", "dir", "out.log")}},
			{"--outputFile lies below a regular file", []string{"redact", in, "--outputFile", filepath.Join(in, "out.log")}},
		} {
			os.WriteFile(filepath.Join(dir, "empty.log.gz"), nil, 0o644)
			r, err := runCLI(CLIRun{Bin: c.CLI, Args: pe.args, Dir: dir})
			c.Eval(1)
			c.Count("cli_runs", 1)
			c.Distinct("path " + pe.name)
			if err != nil {
				continue
			}
			if r.Exit == 0 && r.Signal == "" {
				c.Violate("cli:unusable-path:exit-0", fmt.Sprintf("%s: nothing can be read / written but the run exits 0 (stdout %d bytes, stderr %q)", pe.name, len(r.Stdout), trunc(string(r.Stderr), 120)), 0, map[string]any{"kind": "cli-path", "case": pe.name, "args": pe.args}, nil)
			} else if bytes.Contains(r.Stderr, []byte("goroutine ")) {
				c.Violate("cli:unusable-path:crash", fmt.Sprintf("%s: the run crashes: %s", pe.name, trunc(firstLine(string(r.Stderr)), 160)), 0, map[string]any{"kind": "cli-path", "case": pe.name, "args": pe.args}, nil)
			} else {
				c.Outcome("device-error-reported")
			}
		}
		// stdout is a pipe whose reader has gone away
		pr, pw, err := os.Pipe()
		if err == nil {
			pr.Close()
			r, err := runCLI(CLIRun{Bin: c.CLI, Args: []string{"redact", in}, Dir: dir, StdoutFile: pw})
			pw.Close()
			c.Eval(1)
			c.Distinct("dev closed pipe")
			if err == nil {
				if r.Exit == 0 && r.Signal == "" {
					c.Violate("cli:closed-pipe:exit-0", "stdout is a pipe closed by its reader but the run exits 0", 0, map[string]any{"kind": "cli-device", "device": "closed pipe"}, nil)
				} else {
					c.Outcome("device-error-reported")
				}
			}
		}
	}
	// damaged .gz files through the CLI
	stride := 16
	if c.Thorough() {
		stride = 1
	}
	var no int64
	for off := 0; off < len(zb); off += stride {
		no++
		if !c.Mine(no) {
			continue
		}
		for vi, dmg := range [][]byte{zb[:off], func() []byte { f := append([]byte(nil), zb...); f[off] ^= 0xff; return f }()} {
			p := filepath.Join(dir, fmt.Sprintf("dmg_%d_%d.log.gz", c.Shard, vi))
			os.WriteFile(p, dmg, 0o644)
			var gzErr error
			var delivered []byte
			if zr, err := gzip.NewReader(bytes.NewReader(dmg)); err != nil {
				gzErr = err
			} else {
				delivered, gzErr = io.ReadAll(zr)
			}
			r, err := runCLI(CLIRun{Bin: c.CLI, Args: []string{"redact", p}, Dir: dir})
			c.Eval(1)
			c.Count("cli_runs", 1)
			what := []string{"cut at", "flipped byte"}[vi]
			c.Distinct(fmt.Sprintf("cli gz %s %d", what, off))
			if err != nil {
				c.HarnessError("C08 CLI: %v", err)
				return
			}
			rp := map[string]any{"kind": "cli-gzip", "damage": fmt.Sprintf("%s %d", what, off)}
			if gzErr != nil {
				if r.Exit == 0 {
					c.Outcome("gzip-error-swallowed")
					c.Violate("cli:gzip:exit-0", fmt.Sprintf("gzip file %s %d of %d: an independent reader fails (%v) but the CLI exits 0", what, off, len(zb), gzErr), int64(off), rp, nil)
				} else {
					c.Outcome("gzip-error-reported")
				}
				dl := refLines
				if vi > 0 {
					_, dl = c08Reference(string(delivered))
				}
				if m, ok := wholeLinePrefix(string(r.Stdout), dl); !ok {
					c.Violate("cli:gzip:not-a-whole-line-prefix", fmt.Sprintf("gzip file %s %d: after %d correct lines stdout holds %q", what, off, m, trunc(lastLine(string(r.Stdout)), 200)), int64(off), rp, nil)
				}
			} else if r.Exit == 0 {
				if m, ok := wholeLinePrefix(string(r.Stdout), refLines); !ok || m != len(refLines) {
					if exp, _ := c08Reference(string(delivered)); string(r.Stdout) != exp {
						c.Violate("cli:gzip:wrong-output", fmt.Sprintf("gzip file %s %d is still valid but the CLI output differs from the redaction of its content", what, off), int64(off), rp, nil)
					}
				}
				c.Outcome("gzip-still-valid")
			}
		}
	}
}

func init() {
	register(&PropDef{
		ID: "C08", Level: "fault_enumeration",
		Rule:        "inputs of 6, 40 and 1 500 lines (the last with sparser fault positions: its output is far larger than any buffer in front of the destination) (command lines of three kinds, other components, non-JSON text, blanks; with and without final newline) on the real stream code; reader faults: chunk sizes {1,7,512,4096} x EVERY Read call index failing, cleanly or together with that call's data (at one chunk size with each of 12 error values: a plain one, io.ErrUnexpectedEOF, EIO, ECONNRESET, EAGAIN, EINTR, io.ErrClosedPipe, os.ErrClosed, io.ErrNoProgress, context.Canceled, a deadline, an error wrapping io.EOF), through the reader and the file entry points; writer faults: EVERY Write call index x {error - with each of 13 error values: a plain one, EPIPE bare and as os.File wraps it, ENOSPC, EIO, EAGAIN, EINTR, io.ErrClosedPipe, os.ErrClosed, io.EOF, io.ErrShortWrite, context.Canceled, os.ErrDeadlineExceeded -, one byte short, half accepted} x {later writes succeed, fail} through reader, file and gzip entry points; gzip: the compressed stream cut at EVERY byte offset, each byte XOR 0xFF and (6-line input / thorough) each single bit flipped, judged against an independent compress/gzip reading of the same bytes; CLI: stdout and --outputFile on /dev/full for file / gzip / stdin input, stdout a pipe closed by its reader, damaged .gz files at every 16th (thorough: every) offset. Oracle: a surfaced fault => error return / non-zero exit; bytes accepted by the writer are a byte prefix of the fault-free output; after a read fault the output is a whole-line prefix of the fault-free lines (for damaged gzip: of the redaction of the complete lines actually delivered). distinct = distinct (input, fault) pairs" + "; inputs holding a 70 000- / 200 000-byte line (beyond the line limit) under the same Read-index and gzip-cut enumeration; /dev/full on stdout / --outputFile at 1, 50, 400, 2 000, 6 000 (thorough 20 000) input lines from file and stdin",
		Assumptions: []string{"for flipped gzip bytes 'fault-free' is read relative to the bytes the decompressor delivered before failing (DESIGN.md 3.0 / section 5)", "a damaged stream that an independent reader still accepts must be processed completely or rejected"},
		Run:         c08Run,
	})
}
