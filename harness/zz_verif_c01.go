//go:build verif

package main

// C01 — sensitive literal values never survive redaction (full-redaction mode).

import (
	"fmt"
	"strings"
)

func c01Layers(c *Ctx) []sweepLayer {
	ns := "dbZq1.coQx7"
	all := flagSets("NBIWRFY", ns)
	cov := coveringFlags(ns)
	four := []Flags{{}, {N: true, B: true, F: []string{ns}}, {Y: true, I: true, W: true}, {N: true, B: true, R: customReplacement, Y: true, F: []string{ns}}}
	// the empty replacement text, alone and next to each other mode
	empties := []Flags{{REmpty: true}, {REmpty: true, Y: true}, {REmpty: true, N: true, B: true, F: []string{ns}}, {REmpty: true, Y: true, W: true, I: true}, {REmpty: true, W: true}}
	all = append(all, empties...)
	if c.Thorough() {
		return []sweepLayer{
			{"L0", GenOpts{}, 0, all},
			{"L1", GenOpts{OneGate: true}, 1, append(append([]Flags{}, coveringFlags8(ns)...), empties...)}, // was: all 133 flag sets - with the grammar of round 4 the tier took over 50 minutes
			{"L2", GenOpts{OneGate: true, LeafSet: 2}, 2, cov},
			{"L3", GenOpts{OneGate: true, LeafSet: 2, Reps: true}, 3, four},
			{"scale", GenOpts{Scale: true, ScaleThorough: true}, 0, coveringFlags8(ns)},
			{"spellings", GenOpts{LeafSet: 1, Spellings: true, FieldNames: []string{"fld", "pr\u00e9nom/x", "\U0001F600k", "owner", "tags", "qty"}}, 1, four},
			rootedLayers(true, four[:2])[0], rootedLayers(true, four[:2])[1],
		}
	}
	return []sweepLayer{
		{"L0-dispatch", GenOpts{LeafSet: 2}, 0, all},
		{"L0-leaves", GenOpts{OneGate: true}, 0, all},
		{"L1", GenOpts{OneGate: true, LeafSet: 1}, 1, coveringFlags8(ns)},
		{"L2", GenOpts{OneGate: true, LeafSet: 2, Slots: []int{0, 4, 12}}, 2, four[:2]},
		{"scale", GenOpts{Scale: true}, 0, four},
		rootedLayers(false, four)[0], rootedLayers(false, four)[1],
		{"spellings", GenOpts{LeafSet: 2, OneGate: true, Spellings: true, FieldNames: []string{"fld", "pr\u00e9nom/x", "\U0001F600k", "owner", "tags", "qty"}}, 0, four},
	}
}

// c01Leaks evaluates the C01 oracle on one output; it returns the leaking nodes with a description.
type leak struct {
	node *LNode
	kind string
}

func c01Leaks(sc *sweepCase, fl Flags, out string, j *JNode) []leak {
	var ls []leak
	for _, s := range sc.C.Secrets {
		if s.Lab.K != LabSecret {
			continue
		}
		switch s.Lab.Class {
		case ClsNum:
			if !fl.N {
				continue
			}
			if strings.Contains(out, s.Lab.Canary) {
				ls = append(ls, leak{s, "leak-num"})
			} else if j != nil {
				if o := follow(j, sc.Path(s)); o != nil && o.Kind == JNum && numEqual(o.Num, s.Num) {
					ls = append(ls, leak{s, "leak-num"})
				}
			}
		case ClsBool:
			if !fl.B || !s.Bool {
				continue
			}
			if j != nil {
				if o := follow(j, sc.Path(s)); o != nil && o.Kind == JBool && o.Bool {
					ls = append(ls, leak{s, "leak-bool"})
				}
			}
		default:
			if s.Lab.Canary != "" && strings.Contains(out, s.Lab.Canary) {
				ls = append(ls, leak{s, "leak"})
			}
		}
	}
	if fl.I {
		if r := sc.C.Attr.Get("remote"); r != nil && r.Lab.K == LabIP && strings.Contains(out, r.Lab.Canary) {
			ls = append(ls, leak{r, "leak-ip"})
		}
	}
	return ls
}

// memberOrders: the line with its top-level members (and those of attr) in two other orders.
func memberOrders(root *LNode) []string {
	perm := func(n *LNode, order []int) *LNode {
		m := &LNode{Kind: JObj, Lab: n.Lab, Zone: n.Zone}
		for _, i := range order {
			m.Keys = append(m.Keys, n.Keys[i])
			m.KeyLab = append(m.KeyLab, n.KeyLab[i])
			m.Kids = append(m.Kids, n.Kids[i])
		}
		return m
	}
	n := len(root.Keys)
	attrFirst, rev := []int{}, []int{}
	for i := 0; i < n; i++ {
		if root.Keys[i] == "attr" {
			attrFirst = append([]int{i}, attrFirst...)
		} else {
			attrFirst = append(attrFirst, i)
		}
		rev = append(rev, n-1-i)
	}
	// attr first, with the members of attr reversed as well
	a := perm(root, attrFirst)
	if at := a.Kids[0]; at.Kind == JObj && len(at.Keys) > 1 {
		ar := []int{}
		for i := len(at.Keys) - 1; i >= 0; i-- {
			ar = append(ar, i)
		}
		a.Kids[0] = perm(at, ar)
	}
	return []string{a.JSON(), perm(root, rev).JSON()}
}

func c01Run(c *Ctx) {
	if !checkPairwise(coveringFlags("a.b")) || !checkPairwise(coveringFlags8("a.b")) {
		c.HarnessError("covering flag array is not pairwise covering")
		return
	}
	var corpus []string
	sweep(c, c01Layers(c), func(sc *sweepCase) bool {
		// self-test of the canaries: each occurs exactly once in the input
		for _, s := range sc.C.Secrets {
			if s.Lab.Canary != "" && strings.Count(sc.Line, s.Lab.Canary) != 1 {
				// JSON escaping never touches canary characters, so this is a generator bug
				c.HarnessError("canary %q occurs %d times in %s", s.Lab.Canary, strings.Count(sc.Line, s.Lab.Canary), trunc(sc.Line, 300))
				return false
			}
		}
		if sc.C.InClaim && len(sc.C.Secrets) > 0 {
			c.Distinct(sc.Line)
		}
		if strings.HasPrefix(sc.Layer, "L0") && (c.Thorough() || (sc.C.Gate == 0 && sc.C.Container == 0)) {
			corpus = append(corpus, sc.Line)
			// the same document with its top-level members in other orders (attr first; reversed): a reader that looks at the
			// raw text of a line before parsing it meets these through the CLI pass
			if sc.C.Gate == 0 && sc.C.Container == 0 && len(corpus)%3 == 0 {
				corpus = append(corpus, memberOrders(sc.C.Root)...)
			}
		}
		if c.P.Evaluations < 3 {
			c.Sample(map[string]any{"slot": sc.C.SlotName, "productions": sc.C.Prods, "line": trunc(sc.Line, 1500)})
		}
		return true
	}, func(sc *sweepCase, fl Flags, out string, ok bool, pv any) {
		if pv != nil {
			c.Count("skipped_panics", 1)
			c.Note("a generated line panics during redaction (C07's concern): %s", trunc(fmt.Sprint(pv), 120))
			return
		}
		if !ok {
			c.Outcome("rejected")
			return
		}
		var j *JNode
		if fl.N || fl.B {
			j, _ = ParseJSON([]byte(out))
		}
		leaks := c01Leaks(sc, fl, out, j)
		if len(leaks) == 0 {
			c.Outcome("clean")
			return
		}
		c.Outcome("leak")
		for _, lk := range leaks {
			sig := lk.kind + ":" + sc.Loc(lk.node)
			if lk.kind == "leak-ip" {
				sig = "leak-ip:attr.remote"
			}
			line, node := sc.Line, lk.node
			c.Violate(sig, fmt.Sprintf("the literal %s at %s of a %s line survives redaction under flags [%s]; input: %s", trunc(node.JSON(), 80), sc.Loc(node), sc.C.SlotName, fl, trunc(line, 700)),
				int64(len(line)), replayOf(sc, fl, map[string]any{"leaked": node.JSON(), "output": out}),
				func() bool {
					fl.Apply()
					o, ok, _ := redactLine(line)
					if !ok {
						return false
					}
					jj, _ := ParseJSON([]byte(o))
					for _, l2 := range c01Leaks(sc, fl, o, jj) {
						if l2.node == node {
							return true
						}
					}
					return false
				})
		}
	})
	// state carried from line to line: sequences of twin lines in one process
	wordsInOtherRoles(c, "C01")
	twinHistories(c, "C01", append(twinFlagSets, Flags{Y: true}, Flags{REmpty: true, N: true}))
	// documents that repeat a field name
	duplicateKeyCheck(c, "leak", "acct", []Flags{{}, {N: true, B: true, F: []string{"hr.staff"}}, {Y: true, I: true, W: true}, {REmpty: true}}, nil)
	// the real CLI flag wiring: one run per flag set over the L0 corpus
	cliCorpusPass(c, "L0", corpus, append(flagSets("NBIWRFY", "dbZq1.coQx7"), Flags{REmpty: true}, Flags{REmpty: true, Y: true}, Flags{REmpty: true, N: true, B: true, F: []string{"dbZq1.coQx7"}}, Flags{REmpty: true, Y: true, W: true, I: true}), false)
}

func init() {
	register(&PropDef{
		ID: "C01", Level: "exploration",
		Rule:        "lines derived from the labelled grammar G by the choice-sequence explorer: L0 = 0 deviations (all slots x gates x containers x leaf kinds) under all 2^7 flag sets; L1 = <=1 non-default production over the full vocabulary; L2 = <=2; L3 = <=3 over class representatives (thorough); every SECRET leaf carries a unique canary; oracle = canary / number literal / true / remote address absent from the emitted line; plus one run of the pristine CLI per flag set over the L0 corpus compared line by line with the in-process output. distinct = distinct input lines inside the claim with at least one SECRET leaf" + scaleRule + twinRule + rootedRule + wordsRule,
		Assumptions: []string{"the label table of G (GRAMMAR.md) is the trusted base", "command verbs the tool does not declare are out of scope"},
		Run:         c01Run,
	})
}
