//go:build verif

package main

// C18 — redact accepts exactly the well-defined jobs; rejections have no side effects.  All 2^13
// presence combinations of the 13 switches (x pre-existing output file or not) are run through the
// real main() (child-cli mode: only http.DefaultTransport is replaced by the scripted endpoint) and
// compared with a rule table written from the property statement and the README.

import (
	"encoding/json"
	"fmt"
	"os"
	"path/filepath"
	"strings"
)

type c18Combo struct {
	F, S, O, Y, Z, N, P, C, U, V, A, B, E bool
	// the ways a switch can be present (0 = the plain one)
	SVar int // stdin: 0 = a pipe, 1 = redirected from a regular file
	EVar int // key pair in the environment: see c18EnvVars
	DVar int // values of the two date switches when both are given: see c18DateVars
	FVar int // file arguments: 0 = one, 1 = two different files, 2 = the same file twice
	OVar int // value of --outputFile: 0 = out.log, 1 = "-" (a file called "-": the tool has no alias for stdout)
}

// c18DateVars: values the two date switches can carry.  Only the first pair is what the documentation describes (epoch
// seconds, start before end); what happens with the others is not decided by the statement (class "open"), but a
// rejection - wherever it is decided - must still be free of side effects.
var c18DateVars = [][2]string{{"1700000000", "1700003600"}, {"NaN", "NaN"}, {"1700003600", "1700000000"}, {"-5", "1700003600"}, {"1700000000123", "1700003600123"}, {"1.7e9", "1700003600"},
	{"Infinity", "1700003600"}, {"abc", "1700003600"}, {"", "1700003600"}, {"1700000000", "1e300"}, {"0", "0"}, {"1700000000", "99999999999999999999"}}

// c18EnvVars: what "key pair in the environment" can look like.  Only a variable with a non-empty value
// supplies its half of the pair.
var c18EnvVars = []struct {
	name     string
	pub, prv int // 0 = unset, 1 = set to the key, 2 = set to the empty string
}{
	{"both", 1, 1}, {"public-only", 1, 0}, {"private-only", 0, 1}, {"public-empty", 2, 1}, {"private-empty", 1, 2}, {"both-empty", 2, 2},
}

func (k c18Combo) envPub() bool { return k.E && c18EnvVars[k.EVar].pub == 1 }
func (k c18Combo) envPrv() bool { return k.E && c18EnvVars[k.EVar].prv == 1 }

func c18FromMask(m int) c18Combo {
	b := func(i int) bool { return m&(1<<i) != 0 }
	return c18Combo{F: b(0), S: b(1), O: b(2), Y: b(3), Z: b(4), N: b(5), P: b(6), C: b(7), U: b(8), V: b(9), A: b(10), B: b(11), E: b(12)}
}

func (k c18Combo) String() string {
	var p []string
	for _, x := range []struct {
		on bool
		n  string
	}{{k.F, "file"}, {k.S, "stdin"}, {k.O, "-o"}, {k.Y, "--encrypt"}, {k.Z, "--redactFieldsRegexp"}, {k.N, "--redactFieldNames"}, {k.P, "--atlasProjectId"}, {k.C, "--atlasClusterName"},
		{k.U, "--atlasPublicKey"}, {k.V, "--atlasPrivateKey"}, {k.A, "--atlasLogStartDate"}, {k.B, "--atlasLogEndDate"}, {k.E, "env-keys"}} {
		if x.on {
			n := x.n
			if n == "-o" && k.OVar == 1 {
				n = "-o -"
			}
			if n == "stdin" && k.SVar == 1 {
				n = "stdin(regular file)"
			}
			if n == "env-keys" && k.EVar != 0 {
				n = "env-keys(" + c18EnvVars[k.EVar].name + ")"
			}
			if n == "--atlasLogStartDate" && k.DVar != 0 {
				n = fmt.Sprintf("--atlasLogStartDate=%s --atlasLogEndDate=%s", c18DateVars[k.DVar][0], c18DateVars[k.DVar][1])
			}
			p = append(p, n)
		}
	}
	if len(p) == 0 {
		return "(nothing)"
	}
	return strings.Join(p, " ")
}

// c18Rule: the reference model.  Returns the class (must-reject / open / must-accept) and the name of
// the first rule that decides it.
func c18Rule(k c18Combo) (string, string) {
	atlasAny := k.P || k.C || k.U || k.V || k.A || k.B
	atlasMode := k.P && k.C
	keys := (k.U || k.envPub()) && (k.V || k.envPrv())
	xor := func(a, b bool) bool { return a != b }
	switch {
	case k.Z && k.N:
		return "must-reject", "regexp-and-fieldnames"
	case xor(k.A, k.B):
		return "must-reject", "one-date-only"
	case xor(k.P, k.C):
		return "must-reject", "project-xor-cluster"
	case atlasMode && (k.F || k.S):
		return "must-reject", "atlas-plus-other-input"
	case atlasMode && !k.O:
		return "must-reject", "atlas-without-output-file"
	case atlasMode && !keys:
		return "must-reject", "atlas-without-key-pair"
	case !atlasAny && k.F && k.S:
		return "must-reject", "file-and-stdin"
	case !atlasAny && !k.F && !k.S:
		return "must-reject", "no-input"
	case !atlasAny && k.Y && (k.S || !k.O):
		return "must-reject", "encrypt-without-file-in-and-out"
	case atlasAny && !atlasMode && !xor(k.F, k.S):
		return "must-reject", "atlas-flags-without-project-and-cluster"
	case k.A && k.B && k.DVar != 0:
		return "open", "date-values-outside-the-documented-form"
	case atlasAny && !atlasMode:
		return "open", "atlas-key-or-date-flags-next-to-a-real-input"
	case atlasMode && k.Y:
		return "open", "atlas-with-encrypt"
	}
	if k.F && k.FVar != 0 {
		// several file arguments next to nothing else: the statement speaks of "file" as one source and does not say
		// whether a list of files is one well-defined job; next to stdin / Atlas the rules above have already rejected it
		return "open", "several-file-arguments"
	}
	return "must-accept", "well-defined-job"
}

const c18Sentinel = "SENTINEL: pre-existing output that a rejected run must not touch\n"

func c18Run(c *Ctx) {
	base := freshDir(c.Scratch, "c18")
	logLine := c06Alphabet()[0].Text
	// well-behaved endpoint: one host, valid payload
	script := AtlasScript{Public: "pubKeyQ", Private: "privKeyQ-7e1f", ClusterUnauth: AnsDigest, ClusterAuth: AnsOK,
		ClusterBody: clusterBodyFor([]string{"h0.example.net"}, []bool{true}, false),
		Hosts:       map[string]*HostScript{"h0.example.net": {Unauth: AnsDigest, Auth: AnsOK, Payload: gzBytes([]byte(logLine + "\n")), Cut: -1}}}
	sb, _ := json.Marshal(script)
	scriptPath := filepath.Join(base, "script.json")
	os.WriteFile(scriptPath, sb, 0o644)
	reqLog := filepath.Join(base, "requests.jsonl")
	classes := map[string]int64{}
	for mask := 0; mask < 1<<13; mask++ {
		if !c.Mine(int64(mask)) {
			continue
		}
		k0 := c18FromMask(mask)
		nS, nE, nD, nF := 1, 1, 1, 1
		if k0.F {
			nF = 3
		}
		if k0.S {
			nS = 2
		}
		if k0.E {
			nE = len(c18EnvVars)
		}
		if k0.A && k0.B && k0.P && k0.C {
			nD = len(c18DateVars) // date values matter where the dates are used: complete Atlas jobs
		}
		// the ways of being present are varied one dimension group at a time: stdin x environment x dates as a product with
		// one file argument, and the file-argument variants with the plain forms of the others
		nO := 0
		if k0.O {
			nO = 1
		}
		for variant := 0; variant < nS*nE*nD+(nF-1)+nO; variant++ {
			k := k0
			if variant < nS*nE*nD {
				k.SVar, k.EVar, k.DVar = variant%nS, variant/nS%nE, variant/(nS*nE)
			} else if variant < nS*nE*nD+(nF-1) {
				k.FVar = variant - nS*nE*nD + 1
			} else {
				k.OVar = 1
			}
			class, rule := c18Rule(k)
			for pre := 0; pre < 2; pre++ {
				if pre == 1 && !k.O {
					continue // nothing to pre-create
				}
				sand := freshDir(base, "sand")
				os.Mkdir(filepath.Join(sand, "tmp"), 0o755)
				os.WriteFile(filepath.Join(sand, "in.log"), []byte(logLine+"\n"), 0o644)
				os.WriteFile(filepath.Join(sand, "in2.log"), []byte(logLine+"\n"), 0o644)
				if pre == 1 {
					os.WriteFile(filepath.Join(sand, "out.log"), []byte(c18Sentinel), 0o644)
					os.WriteFile(filepath.Join(sand, "out.log.0"), []byte(c18Sentinel), 0o644)
					if k.OVar == 1 {
						os.WriteFile(filepath.Join(sand, "-"), []byte(c18Sentinel), 0o644)
						os.WriteFile(filepath.Join(sand, "-.0"), []byte(c18Sentinel), 0o644)
					}
				}
				os.Remove(reqLog)
				args := []string{"redact"}
				if k.F {
					args = append(args, "in.log")
					switch k.FVar {
					case 1:
						args = append(args, "in2.log")
					case 2:
						args = append(args, "in.log")
					}
				}
				outArg := "out.log"
				if k.OVar == 1 {
					outArg = "-"
				}
				if k.O {
					args = append(args, "--outputFile", outArg)
				}
				if k.Y {
					args = append(args, "--encrypt")
				}
				if k.Z {
					args = append(args, "--redactFieldsRegexp", "^(ssn|email)$")
				}
				if k.N {
					args = append(args, "--redactFieldNames", "shop.orders")
				}
				if k.P {
					args = append(args, "--atlasProjectId", "649c9a785e44024904135520")
				}
				if k.C {
					args = append(args, "--atlasClusterName", "mycluster")
				}
				if k.U {
					args = append(args, "--atlasPublicKey", script.Public)
				}
				if k.V {
					args = append(args, "--atlasPrivateKey", script.Private)
				}
				if k.A {
					args = append(args, "--atlasLogStartDate="+c18DateVars[k.DVar][0])
				}
				if k.B {
					args = append(args, "--atlasLogEndDate="+c18DateVars[k.DVar][1])
				}
				env := []string{"VERIF_MODE=child-cli", "VERIF_ATLAS_SCRIPT=" + scriptPath, "VERIF_ATLAS_LOG=" + reqLog}
				if k.E {
					ev := c18EnvVars[k.EVar]
					switch ev.pub {
					case 1:
						env = append(env, "ATLAS_PUBLIC_KEY="+script.Public)
					case 2:
						env = append(env, "ATLAS_PUBLIC_KEY=")
					}
					switch ev.prv {
					case 1:
						env = append(env, "ATLAS_PRIVATE_KEY="+script.Private)
					case 2:
						env = append(env, "ATLAS_PRIVATE_KEY=")
					}
				}
				run := CLIRun{Bin: c.Self, Args: args, Dir: sand, TmpDir: filepath.Join(sand, "tmp"), Env: env}
				if k.S {
					run.StdinMode, run.Stdin = "pipe", []byte(logLine+"\n")
					if k.SVar == 1 {
						run.StdinMode = "file"
						os.WriteFile(filepath.Join(sand, ".stdin"), run.Stdin, 0o644) // before the snapshot: the runner rewrites the same bytes
					}
				}
				before := snapshotDir(sand, nil)
				r, err := runCLI(run)
				if err != nil {
					c.HarnessError("C18: %v", err)
					return
				}
				after := snapshotDir(sand, nil)
				rl, _ := os.ReadFile(reqLog)
				nreq := strings.Count(string(rl), "\n")
				c.Eval(1)
				c.P.Transitions++
				c.Distinct(fmt.Sprintf("%d/%d/%d", mask, variant, pre))
				classes[class]++
				diff := snapshotDiff(before, after)
				rejected := r.Exit != 0 || r.Signal != ""
				desc := fmt.Sprintf("switches [%s]%s: rule %s (%s)", k, map[int]string{0: "", 1: ", output file pre-existing"}[pre], rule, class)
				rp := map[string]any{"kind": "argv", "mask": mask, "pre_existing_output": pre == 1, "args": args, "env_keys": k.E, "env_variant": c18EnvVars[k.EVar].name, "stdin_piped": k.S, "stdin_regular_file": k.SVar == 1, "output_file_value": outArg, "file_arguments": map[int]int{0: 1, 1: 2, 2: 2}[k.FVar], "rule": rule, "class": class}
				viol := func(sym, what string) {
					c.Outcome("model-mismatch")
					c.Violate(class+":"+rule+":"+sym, fmt.Sprintf("%s: %s; exit %d, stderr %q, requests %d, sandbox changes %v", desc, what, r.Exit, trunc(string(r.Stderr), 160), nreq, diff), int64(popcount(mask)*2+pre), rp, nil)
				}
				sideEffects := func() {
					if nreq > 0 {
						viol("network-request", "a rejected run sent a network request")
					}
					for _, d := range diff {
						viol("side-effect:"+sideKind(d), "a rejected run changed the file system ("+d+")")
						break
					}
				}
				switch class {
				case "must-reject":
					if !rejected {
						viol("accepted", "the combination is not one well-defined job but the run exits 0")
						break
					}
					if len(strings.TrimSpace(string(r.Stderr))) == 0 {
						viol("no-message", "rejected without an explanatory message on stderr")
					}
					sideEffects()
					c.Outcome("rejected-as-modelled")
				case "open":
					if rejected {
						sideEffects()
						c.Outcome("open-rejected")
					} else {
						c.Outcome("open-accepted")
					}
				default:
					if rejected {
						viol("rejected", "a well-defined job is refused")
						break
					}
					outName := outArg
					if k.P {
						outName = outArg + ".0"
					}
					if k.O {
						if b, err := os.ReadFile(filepath.Join(sand, outName)); err != nil || len(b) == 0 || strings.HasPrefix(string(b), "SENTINEL") {
							viol("no-output", "the job is accepted but "+outName+" holds no redacted output")
							break
						}
					} else if len(r.Stdout) == 0 {
						viol("no-output", "the job is accepted but nothing is written to stdout")
						break
					}
					c.Outcome("accepted-as-modelled")
				}
			}
		}
	}
	if c.Shard == 0 {
		c.Sample(map[string]any{"switches": c18FromMask(0b0000001000101).String(), "class": "must-accept"})
		c.Sample(map[string]any{"switches": c18FromMask(0b0001100000100).String(), "class": "must-reject", "rule": "atlas-flags-without-project-and-cluster"})
	}
	for k, v := range classes {
		c.Count("class_"+k, v)
	}
	c.P.Traces = c.P.Transitions
}

func popcount(m int) int {
	n := 0
	for ; m != 0; m &= m - 1 {
		n++
	}
	return n
}

func sideKind(d string) string {
	switch {
	case strings.Contains(d, "enc.key"):
		return "key-file-generated"
	case strings.HasPrefix(d, "created out.log"):
		return "output-file-created"
	case strings.HasPrefix(d, "changed out.log"):
		return "output-file-truncated"
	case strings.Contains(d, "tmp/"):
		return "temp-file-left"
	}
	return "other"
}

func c18Post(c *Ctx, m *Part) {
	// the state space of the model: 2^13 combinations, 3 classes
	m.States = 1 << 13
}

func init() {
	register(&PropDef{
		ID: "C18", Level: "model_checking",
		Rule:        "all 8192 presence/absence combinations (about 80 000 runs with the variants) of {file argument (one, two different ones, the same one twice), piped stdin, --outputFile (value out.log or '-', which names a file like any other), --encrypt, --redactFieldsRegexp, --redactFieldNames, --atlasProjectId, --atlasClusterName, --atlasPublicKey, --atlasPrivateKey, --atlasLogStartDate, --atlasLogEndDate, key pair in the environment}, crossed with the WAYS two of them can be present (stdin: a pipe or a redirected regular file; environment: both variables set, only one of them set, one or both set to the empty string - a half of the pair counts only when its value is non-empty), each with and (when -o is given) without a pre-existing output file holding sentinel bytes, run through the real main() with cobra/pflag wiring (harness binary in child-cli mode: only http.DefaultTransport is replaced by a scripted, well-behaved Atlas endpoint that logs requests) in a fresh sandbox (own cwd, HOME, TMPDIR); reference model = rule table of DESIGN.md C18 (must-reject / open / must-accept); must-reject => non-zero exit, non-empty stderr, sandbox snapshot (path, type, mode, size, SHA-256) unchanged, empty request log; must-accept => exit 0 and redacted output present; a rejection of an open combination must be side-effect free as well. states = combinations, transitions = runs, every one compared with the model",
		Assumptions: []string{"combinations the statement does not decide (Atlas key / date flags next to a real input; Atlas mode with --encrypt; several file arguments and nothing else) are open: either outcome is accepted", "flag VALUES are fixed well-formed ones; only presence is enumerated"},
		Run:         c18Run, Post: c18Post,
	})
}
