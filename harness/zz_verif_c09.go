//go:build verif

package main

// C09 — encrypted values decrypt back to exactly the original; a wrong key or an altered / truncated
// ciphertext fails with an error and never yields a plaintext.

import (
	"bytes"
	"encoding/base64"
	"fmt"
	"os"
	"path/filepath"
	"strings"
)

func c09Keys() [][]byte {
	mk := func(f func(i int) byte) []byte {
		k := make([]byte, 64)
		for i := range k {
			k[i] = f(i)
		}
		return k
	}
	return [][]byte{
		harnessKey,
		mk(func(i int) byte { return 0 }),
		mk(func(i int) byte { return 0xff }),
		mk(func(i int) byte { return byte(i) }),
		mk(func(i int) byte { return byte(i*i*31 + i*17 + 5) }),
	}
}

type c09Class struct {
	name string
	unit []string // repeating units (runes or strings)
}

var c09Classes = []c09Class{
	{"ascii", []string{"a", "B", "7", " ", "z", "-", "_", "Q"}},
	{"utf8-2byte", []string{"é", "ü", "ß", "Ω"}},
	{"utf8-3byte", []string{"日", "本", "€", " "}},
	{"utf8-4byte", []string{"😀", "\U00010348", "\U0001F9EA"}},
	{"control", []string{"\x00", "\x01", "\n", "\r", "\t", "\x1f", "\x7f", "\""}},
	{"base64-looking", []string{"Q", "U", "F", "B", "+", "/", "9", "="}},
	{"json-looking", []string{"{", "\"", "a", "\"", ":", "[", "1", ",", "n", "u", "l", "l", "]", "}", "\\"}},
}

func (cl c09Class) text(n int) string {
	var sb strings.Builder
	for i := 0; i < n; i++ {
		sb.WriteString(cl.unit[i%len(cl.unit)])
	}
	return sb.String()
}

func c09Run(c *Ctx) {
	keys := c09Keys()
	// ---- (1) round trip over every length x content class x key, through Encrypt/Decrypt and through
	// the redaction path (redactString + base64) of a real line
	var lengths []int
	if c.Thorough() {
		for n := 0; n <= 4096; n++ {
			lengths = append(lengths, n)
		}
	} else {
		for n := 0; n <= 1100; n++ {
			lengths = append(lengths, n)
		}
		for _, n := range []int{2047, 2048, 2049, 4095, 4096} {
			lengths = append(lengths, n)
		}
	}
	var caseNo int64
	for _, n := range lengths {
		for ci, cl := range c09Classes {
			caseNo++
			if !c.Mine(caseNo) {
				continue
			}
			pt := cl.text(n)
			for ki, key := range keys {
				ct, err := Encrypt([]byte(pt), key)
				c.Eval(1)
				var back []byte
				if err == nil {
					back, err = Decrypt(ct, key)
				}
				if err != nil || string(back) != pt {
					c.Outcome("roundtrip-broken")
					c.Violate(fmt.Sprintf("roundtrip:api:%s", cl.name), fmt.Sprintf("Decrypt(Encrypt(p)) != p for a %s plaintext of %d units under key #%d: err=%v got %q", cl.name, n, ki, err, trunc(string(back), 60)),
						int64(n), map[string]any{"kind": "api-roundtrip", "class": ci, "length": n, "key": ki},
						func() bool {
							ct, e := Encrypt([]byte(pt), key)
							if e != nil {
								return true
							}
							b, e := Decrypt(ct, key)
							return e != nil || string(b) != pt
						})
					continue
				}
				c.Outcome("roundtrip-ok")
				// through the redaction path: the emitted base64 text decrypts to the JSON-decoded original
				if ki < 2 {
					in := LO("t", LO("$date", LS("2024-05-01T10:00:00.123+00:00")), "s", LS("I"), "c", LS("COMMAND"), "id", LN("1"), "ctx", LS("c"), "msg", LS("Slow query"),
						"attr", LO("ns", LS("d.c"), "command", LO("find", LS("c"), "filter", LO("fld", LS(pt), "o", LO("$in", LA(LS("x"), LS(pt)))), "$db", LS("d"))))
					Flags{Y: true, Key: key}.Apply()
					out, ok, pv := redactLine(in.JSON())
					c.Eval(1)
					bad := ""
					if pv != nil || !ok {
						bad = "the line is rejected"
					} else if j, err := ParseJSON([]byte(out)); err != nil {
						bad = "unparsable output"
					} else {
						for _, p := range [][]int{{6, 1, 1, 0}, {6, 1, 1, 1, 0, 1}} {
							o := follow(j, p)
							if o == nil || o.Kind != JStr {
								bad = "the leaf is not a string"
								break
							}
							raw, err := base64.StdEncoding.Strict().DecodeString(o.Str)
							if err != nil {
								bad = "the emitted text is not standard base64: " + trunc(o.Str, 40)
								break
							}
							b, err := Decrypt(raw, key)
							if err != nil || string(b) != pt {
								bad = fmt.Sprintf("the emitted text does not decrypt to the original (err=%v)", err)
								break
							}
						}
					}
					if bad != "" {
						c.Violate("roundtrip:line:"+cl.name, fmt.Sprintf("%s for a %s literal of %d units in a filter under --encrypt", bad, cl.name, n), int64(n),
							map[string]any{"kind": "line-roundtrip", "class": ci, "length": n, "key": ki, "input": trunc(in.JSON(), 2000)}, nil)
					}
				}
			}
			c.Distinct(fmt.Sprintf("%s/%d", cl.name, n))
		}
	}
	Flags{}.Apply()
	c09History(c, keys)
	c09Streams(c, keys)
	c09Positions(c, keys)
	// ---- (2) corruption: every single-byte substitution and every truncation of ciphertexts; every
	// key differing in one byte
	if true {
		for _, n := range []int{0, 1, 15, 16, 17, 33} {
			pt := c09Classes[0].text(n)
			key := keys[0]
			ct, err := Encrypt([]byte(pt), key)
			if err != nil {
				c.HarnessError("Encrypt failed: %v", err)
				return
			}
			step := 1
			if !c.Thorough() {
				step = 5 // quick: every offset, 51 of the 255 substitute values
			}
			for off := 0; off < len(ct); off++ {
				caseNo++
				if !c.Mine(caseNo) {
					continue
				}
				for d := 1; d < 256; d += step {
					mut := append([]byte(nil), ct...)
					mut[off] ^= byte(d)
					b, err := Decrypt(mut, key)
					c.Eval(1)
					if err == nil {
						c.Outcome("corruption-accepted")
						c.Violate("corruption:substitution-accepted", fmt.Sprintf("a ciphertext (plaintext length %d) with byte %d XOR 0x%02x decrypts without error to %q", n, off, d, trunc(string(b), 40)), int64(n),
							map[string]any{"kind": "substitution", "length": n, "offset": off, "xor": d}, func() bool { _, e := Decrypt(mut, key); return e == nil })
					} else {
						c.Outcome("corruption-rejected")
					}
				}
			}
			for cut := 0; cut < len(ct); cut++ {
				caseNo++
				if !c.Mine(caseNo) {
					continue
				}
				b, err := Decrypt(ct[:cut], key)
				c.Eval(1)
				if err == nil {
					c.Outcome("corruption-accepted")
					c.Violate("corruption:truncation-accepted", fmt.Sprintf("a ciphertext (plaintext length %d) truncated to %d of %d bytes decrypts without error to %q", n, cut, len(ct), trunc(string(b), 40)), int64(cut),
						map[string]any{"kind": "truncation", "length": n, "cut": cut}, func() bool { _, e := Decrypt(ct[:cut], key); return e == nil })
				} else {
					c.Outcome("corruption-rejected")
				}
				// an appended byte is an alteration too
				b, err = Decrypt(append(append([]byte(nil), ct...), byte(cut)), key)
				c.Eval(1)
				if err == nil {
					c.Violate("corruption:extension-accepted", fmt.Sprintf("a ciphertext with one byte appended decrypts without error to %q", trunc(string(b), 40)), int64(n), map[string]any{"kind": "extension", "length": n}, nil)
				}
			}
			for kb := 0; kb < 64; kb++ {
				caseNo++
				if !c.Mine(caseNo) {
					continue
				}
				for _, d := range []byte{1, 0x80, 0xff} {
					k2 := append([]byte(nil), key...)
					k2[kb] ^= d
					b, err := Decrypt(ct, k2)
					c.Eval(1)
					if err == nil && kb >= 32 && string(b) == pt && n <= 1 {
						// AES-SIV uses the second key half only for the CTR keystream: for an empty message it
						// is not used at all, and for a 1-byte message a different second half yields the same
						// keystream byte with probability 2^-8, in which case the RIGHT plaintext verifies.
						// No scheme-conformant implementation can fail here; a WRONG plaintext would still be
						// reported (DESIGN.md section 5).
						c.Outcome("wrong-ctr-key-half-still-yields-the-right-short-plaintext")
						continue
					}
					if err == nil {
						c.Outcome("wrong-key-accepted")
						c.Violate("corruption:wrong-key-accepted", fmt.Sprintf("a ciphertext (plaintext length %d) decrypts without error under a key that differs in byte %d: %q", n, kb, trunc(string(b), 40)), int64(n),
							map[string]any{"kind": "wrong-key", "length": n, "key_byte": kb}, func() bool { _, e := Decrypt(ct, k2); return e == nil })
					} else {
						c.Outcome("wrong-key-rejected")
					}
				}
			}
			// the remaining harness keys are wrong keys as well
			for ki := 1; ki < len(keys); ki++ {
				if _, err := Decrypt(ct, keys[ki]); err == nil && c.Shard == 0 {
					c.Violate("corruption:wrong-key-accepted", fmt.Sprintf("a ciphertext (plaintext length %d) decrypts without error under key #%d", n, ki), int64(n), map[string]any{"kind": "wrong-key", "length": n, "key": ki}, nil)
				}
			}
		}
	}
	if c.Shard == 0 {
		c.Sample(map[string]any{"plaintext": c09Classes[3].text(5), "class": "utf8-4byte", "length_units": 5, "keys": len(keys)})
		c.Sample(map[string]any{"corruption": "ciphertext of a 17-byte plaintext, byte 20 XOR 0x01", "expected": "Decrypt returns an error"})
	}
	// ---- (3) end to end through the CLI: redact --encrypt, then decrypt every distinct ciphertext found
	// at a SECRET position
	c09CLI(c)
}

// c09History: what a process has encrypted before must not change what a value encrypts / decrypts to.
// (a) plaintexts that ARE ciphertexts of the same key (the output of an earlier --encrypt run fed in again): every
// length 0..200; the emitted text must decrypt to the text that was given, not to what that text decrypts to.
// (b) one in-process history of 12 000 (thorough 150 000) distinct short values through the redaction path, then
// the first values again: each must decrypt to itself and get the ciphertext it got before.
func c09History(c *Ctx, keys [][]byte) {
	if c.NShards > 1 && c.Shard > 1 {
		return
	}
	key := keys[c.Shard%2]
	Flags{Y: true, Key: key}.Apply()
	defer Flags{}.Apply()
	through := func(pt string) (string, string) {
		in := LO("t", LO("$date", LS("2024-05-01T10:00:00.123+00:00")), "s", LS("I"), "c", LS("COMMAND"), "id", LN("1"), "ctx", LS("c"), "msg", LS("Slow query"),
			"attr", LO("ns", LS("d.c"), "command", LO("find", LS("c"), "filter", LO("fld", LS(pt)), "$db", LS("d"))))
		out, ok, pv := redactLine(in.JSON())
		c.Eval(1)
		if pv != nil || !ok {
			return "", "the line is rejected"
		}
		j, err := ParseJSON([]byte(out))
		if err != nil {
			return "", "unparsable output"
		}
		o := follow(j, []int{6, 1, 1, 0})
		if o == nil || o.Kind != JStr {
			return "", "the leaf is not a string"
		}
		raw, err := base64.StdEncoding.Strict().DecodeString(o.Str)
		if err != nil {
			return o.Str, "the emitted text is not standard base64"
		}
		b, err := Decrypt(raw, key)
		if err != nil {
			return o.Str, fmt.Sprintf("the emitted text does not decrypt (%v)", err)
		}
		if string(b) != pt {
			return o.Str, fmt.Sprintf("the emitted text decrypts to %q, not to the literal %q", trunc(string(b), 60), trunc(pt, 60))
		}
		return o.Str, ""
	}
	for n := 0; n <= 200; n++ {
		inner := c09Classes[0].text(n)
		ct, err := Encrypt([]byte(inner), key)
		if err != nil {
			continue
		}
		p2 := base64.StdEncoding.EncodeToString(ct)
		c.Distinct(fmt.Sprintf("own-ciphertext/%d/%d", c.Shard, n))
		if _, bad := through(p2); bad != "" {
			c.Violate("roundtrip:line:own-ciphertext", fmt.Sprintf("a literal that is itself a ciphertext under the same key (of a %d-byte text): %s", n, bad), int64(n),
				map[string]any{"kind": "own-ciphertext", "inner_length": n, "literal": p2}, nil)
		}
		// and at the API
		ct2, err := Encrypt([]byte(p2), key)
		if b, e := Decrypt(ct2, key); err != nil || e != nil || string(b) != p2 {
			c.Violate("roundtrip:api:own-ciphertext", fmt.Sprintf("Decrypt(Encrypt(p)) != p for p = base64 of a ciphertext under the same key (inner length %d)", n), int64(n), map[string]any{"kind": "own-ciphertext-api", "inner_length": n}, nil)
		}
		c.Eval(1)
	}
	// plaintexts next to classes the tool treats specially, under encryption alone and next to every other mode: what
	// is encrypted must be the literal itself, not a cleaned-up, normalised or otherwise pre-processed form of it
	specials := append(append([]string{}, c10Dictionary...), "Bob Builder <bob@example.com>", "10.1.2.3:27017", "192.168.0.1", "Zoe\u0308", "\u1100\u1161\u11a8", "REDACTED", "redacted@redacted.com", "000000000000000000000000", "1970-01-01T00:00:00.000Z", "a$ref", "a.b.c", "  padded  ", "tab\tnl\n", "\ufeffbom", "UPPER lower", "ＡＢＣ fullwidth")
	for _, fl := range []Flags{{Y: true}, {Y: true, I: true}, {Y: true, N: true, B: true, I: true, W: true}, {Y: true, F: []string{"d.c"}}, {Y: true, R: "10.", I: true}, {Y: true, Z: "^fld$"}} {
		fl.Key = key
		fl.Apply()
		for _, sp := range specials {
			c.Distinct(fmt.Sprintf("special/%d/%s/%q", c.Shard, fl, sp))
			if _, bad := through(sp); bad != "" {
				c.Violate("roundtrip:line:special-plaintext", fmt.Sprintf("flags [%s], literal %q: %s", fl, sp, bad), int64(len(sp)), map[string]any{"kind": "special-plaintext", "flags": fl.String(), "literal": sp}, nil)
			}
		}
	}
	Flags{Y: true, Key: key}.Apply()
	N := 12000
	if c.Thorough() {
		N = 150000
	}
	first := make([]string, N)
	val := func(i int) string { return fmt.Sprintf("user-%d@hist", i) }
	for i := 0; i < N; i++ {
		ctText, bad := through(val(i))
		if bad != "" {
			c.Violate("history:wrong-ciphertext", fmt.Sprintf("value %d of a history of distinct values: %s", i, bad), int64(i), map[string]any{"kind": "c09-history", "index": i}, nil)
			break
		}
		first[i] = ctText
	}
	again := 0
	for i := 0; i < N; i++ {
		if i >= 5000 && i%7 != 0 {
			continue
		}
		again++
		ctText, bad := through(val(i))
		if bad != "" {
			c.Violate("history:wrong-ciphertext-on-repeat", fmt.Sprintf("after %d distinct values were encrypted in this process, value %d is met again: %s", N, i, bad), int64(i), map[string]any{"kind": "c09-history", "index": i, "distinct_values": N}, nil)
			break
		}
		if ctText != first[i] {
			c.Violate("history:ciphertext-changes", fmt.Sprintf("after %d distinct values, value %d gets another ciphertext than the first time", N, i), int64(i), map[string]any{"kind": "c09-history", "index": i, "distinct_values": N}, nil)
			break
		}
	}
	c.Count("max:history_distinct_values", int64(N))
	c.Count("history_values_met_again", int64(again))
	c.Distinct(fmt.Sprintf("history/%d", c.Shard))
}

// c09Streams: one process, one key, SEVERAL logs one after the other - what Atlas mode does with the logs of the
// hosts of a cluster.  Every sequence of up to 3 (thorough 4) streams over {plain reader, gzip file, file without a
// final newline, stream that ends in an error after a good line, empty stream}: every ciphertext of every stream
// must decrypt under the key that was set once, to the literal of its own line.
func c09Streams(c *Ctx, keys [][]byte) {
	if c.NShards > 1 && c.Shard > 1 {
		return
	}
	key := keys[c.Shard%2]
	mkLine := func(pt string) string {
		return LO("t", LO("$date", LS("2024-05-01T10:00:00.123+00:00")), "s", LS("I"), "c", LS("COMMAND"), "id", LN("1"), "ctx", LS("c"), "msg", LS("Slow query"),
			"attr", LO("ns", LS("d.c"), "command", LO("find", LS("c"), "filter", LO("fld", LS(pt)), "$db", LS("d")))).JSON()
	}
	kinds := []string{"reader", "gzip-file", "no-final-newline", "ends-in-error", "empty"}
	depth := 3
	if c.Thorough() {
		depth = 4
	}
	var seqNo int
	body := func(x *X) {
		n := 1 + x.Free(depth, "streams")
		seq := make([]int, n)
		for i := range seq {
			seq[i] = x.Free(len(kinds), "stream kind")
		}
		seqNo++
		Flags{Y: true, Key: append([]byte{}, key...)}.Apply() // the key is set ONCE, like main() does
		for si, k := range seq {
			pts := []string{fmt.Sprintf("stream %d of %v first secret", si, seq), fmt.Sprintf("second secret é %d/%d", seqNo, si)}
			text := mkLine(pts[0]) + "\n" + mkLine(pts[1]) + "\n"
			var out bytes.Buffer
			var err error
			wantErr := false
			switch kinds[k] {
			case "reader":
				err = ProcessMongoLogFileFromReader(strings.NewReader(text), &out, nil)
			case "gzip-file":
				err = ProcessMongoLogFile(&c06FR{data: gz([]byte(text)), ext: ".gz"}, "x.log.gz", &out, nil)
			case "no-final-newline":
				err = ProcessMongoLogFile(&c06FR{data: []byte(strings.TrimSuffix(text, "\n")), ext: ".log"}, "x.log", &out, nil)
			case "ends-in-error":
				err = ProcessMongoLogFileFromReader(strings.NewReader(text+strings.Repeat("x", 70000)+"\n"), &out, nil)
				wantErr = true
			case "empty":
				pts = nil
				err = ProcessMongoLogFileFromReader(strings.NewReader(""), &out, nil)
			}
			c.Eval(1)
			rp := map[string]any{"kind": "c09-streams", "sequence": fmt.Sprint(seq), "stream": si}
			if (err != nil) != wantErr {
				c.Violate("streams:unexpected-result", fmt.Sprintf("stream %d (%s) of the sequence %v in one process returns %v", si, kinds[k], seq, err), int64(len(seq)), rp, nil)
				continue
			}
			lines := strings.Split(strings.TrimSuffix(out.String(), "\n"), "\n")
			if len(pts) == 0 {
				if out.Len() != 0 {
					c.Violate("streams:output-for-empty-stream", fmt.Sprintf("an empty stream (position %d of %v) produced output %q", si, seq, trunc(out.String(), 80)), int64(len(seq)), rp, nil)
				}
				continue
			}
			if len(lines) != len(pts) {
				c.Violate("streams:line-count", fmt.Sprintf("stream %d (%s) of %v: %d output lines for %d input lines", si, kinds[k], seq, len(lines), len(pts)), int64(len(seq)), rp, nil)
				continue
			}
			for li, l := range lines {
				bad := ""
				j, e := ParseJSON([]byte(l))
				var o *JNode
				if e == nil {
					o = follow(j, []int{6, 1, 1, 0})
				}
				if o == nil || o.Kind != JStr {
					bad = "the leaf is not a string"
				} else if raw, e := base64.StdEncoding.Strict().DecodeString(o.Str); e != nil {
					bad = "the emitted text is not standard base64: " + trunc(o.Str, 40)
				} else if b, e := Decrypt(raw, key); e != nil {
					bad = fmt.Sprintf("the emitted text does not decrypt under the key of the run (%v)", e)
				} else if string(b) != pts[li] {
					bad = fmt.Sprintf("the emitted text decrypts to %q, not to %q", trunc(string(b), 60), pts[li])
				}
				if bad != "" {
					c.Violate("streams:wrong-ciphertext", fmt.Sprintf("one process, one key, logs processed one after the other %v (kinds %v): line %d of log %d (%s): %s", seq, kinds, li, si, kinds[k], bad), int64(len(seq)*10+si), rp, nil)
				}
			}
		}
		c.Distinct(fmt.Sprintf("streams/%d/%v", c.Shard, seq))
	}
	st := Explore(body, ExploreOpts{Bound: -1}, func(x *X) {})
	c.Count("stream_sequences", st.Executions)
	Flags{}.Apply()
}

// c09Positions: the same plaintexts at every kind of position a sensitive string can stand in (not only a find filter):
// what is emitted there must decrypt - once - to the literal.
func c09Positions(c *Ctx, keys [][]byte) {
	if c.NShards > 1 && c.Shard > 1 {
		return
	}
	key := keys[c.Shard%2]
	Flags{Y: true, Key: key}.Apply()
	defer Flags{}.Apply()
	env := func(comp, cmd string) string {
		return `{"t":{"$date":"2024-05-01T10:00:00.123+00:00"},"s":"I","c":"` + comp + `","id":1,"ctx":"c","msg":"Slow query","attr":{"ns":"d.c","command":` + cmd + `}}`
	}
	shapes := []struct {
		name string
		mk   func(q string) string
	}{
		{"update.updates[].u pipeline form $set", func(q string) string {
			return env("COMMAND", `{"update":"c","updates":[{"q":{"k":1},"u":[{"$set":{"a":`+q+`}}]}],"$db":"d"}`)
		}},
		{"update.updates[].u pipeline form $replaceWith", func(q string) string {
			return env("COMMAND", `{"update":"c","updates":[{"q":{"k":1},"u":[{"$replaceWith":{"a":{"$literal":`+q+`}}}]}],"$db":"d"}`)
		}},
		{"update.updates[].u document form", func(q string) string {
			return env("COMMAND", `{"update":"c","updates":[{"q":{"a":`+q+`},"u":{"$set":{"b":1}}}],"$db":"d"}`)
		}},
		{"findAndModify.update pipeline form", func(q string) string {
			return env("COMMAND", `{"findAndModify":"c","query":{"k":1},"update":[{"$set":{"a":`+q+`}}],"$db":"d"}`)
		}},
		{"findAndModify.arrayFilters", func(q string) string {
			return env("COMMAND", `{"findAndModify":"c","query":{"k":1},"update":{"$set":{"x.$[e]":1}},"arrayFilters":[{"e.a":`+q+`}],"$db":"d"}`)
		}},
		{"aggregate $match / $in", func(q string) string {
			return env("COMMAND", `{"aggregate":"c","pipeline":[{"$match":{"a":{"$in":[`+q+`,1]}}}],"cursor":{},"$db":"d"}`)
		}},
		{"aggregate $lookup.pipeline $match", func(q string) string {
			return env("COMMAND", `{"aggregate":"c","pipeline":[{"$lookup":{"from":"o","pipeline":[{"$match":{"a":`+q+`}}],"as":"j"}}],"cursor":{},"$db":"d"}`)
		}},
		{"aggregate $addFields expression", func(q string) string {
			return env("COMMAND", `{"aggregate":"c","pipeline":[{"$addFields":{"f":{"$concat":["$g",`+q+`]}}}],"cursor":{},"$db":"d"}`)
		}},
		{"aggregate $search text.query", func(q string) string {
			return env("COMMAND", `{"aggregate":"c","pipeline":[{"$search":{"text":{"query":`+q+`,"path":"bio"}}}],"cursor":{},"$db":"d"}`)
		}},
		{"insert.documents[]", func(q string) string {
			return env("COMMAND", `{"insert":"c","documents":[{"a":{"b":[`+q+`]}}],"$db":"d"}`)
		}},
		{"delete.deletes[].q", func(q string) string {
			return env("COMMAND", `{"delete":"c","deletes":[{"q":{"a":`+q+`},"limit":0}],"$db":"d"}`)
		}},
		{"WRITE line u pipeline form", func(q string) string {
			return env("WRITE", `{"q":{"k":1},"u":[{"$set":{"a":`+q+`}}],"multi":false}`)
		}},
		{"originatingCommand of a getMore", func(q string) string {
			return `{"t":{"$date":"2024-05-01T10:00:00.123+00:00"},"s":"I","c":"COMMAND","id":1,"ctx":"c","msg":"Slow query","attr":{"ns":"d.c","command":{"getMore":7,"collection":"c","$db":"d"},"originatingCommand":{"find":"c","filter":{"a":` + q + `},"$db":"d"}}}`
		}},
	}
	pts := []string{"plain text", "x", "é 日本 😀", "15% off", "a@b.co", "bob@example.com ", "ends with backslash \\", "REDACTED", "000000000000000000000001"}
	for _, sh := range shapes {
		for _, pt := range pts {
			line := sh.mk(LS(pt).JSON())
			out, ok, pv := redactLine(line)
			c.Eval(1)
			c.Distinct(fmt.Sprintf("positions/%d/%s/%q", c.Shard, sh.name, pt))
			if pv != nil || !ok {
				c.Count("skipped_panics_or_rejected", 1)
				continue
			}
			// the ciphertext: the one string of the output that is not in the input and decodes as base64
			found, bad := 0, ""
			j, err := ParseJSON([]byte(out))
			if err != nil {
				continue
			}
			var walk func(n *JNode)
			walk = func(n *JNode) {
				if n.Kind == JStr && !strings.Contains(line, LS(n.Str).JSON()) {
					raw, e := base64.StdEncoding.Strict().DecodeString(n.Str)
					if e != nil {
						bad = "a new string in the output is not standard base64: " + trunc(n.Str, 40)
						return
					}
					b, e := Decrypt(raw, key)
					found++
					if e != nil {
						bad = fmt.Sprintf("the emitted text does not decrypt (%v)", e)
					} else if string(b) != pt {
						bad = fmt.Sprintf("the emitted text decrypts to %q, not to the literal %q", trunc(string(b), 60), pt)
					}
				}
				for _, k := range n.Kids {
					walk(k)
				}
			}
			walk(j)
			if bad == "" && found == 0 && !strings.Contains(out, LS(pt).JSON()) {
				bad = "no ciphertext of the literal in the output"
			}
			if bad != "" {
				c.Violate("roundtrip:position:"+sh.name, fmt.Sprintf("the literal %q at %s under --encrypt: %s; output %s", pt, sh.name, bad, trunc(out, 300)), int64(len(pt)),
					map[string]any{"kind": "redact-line", "input": line, "flags": "Y", "output": out}, nil)
			}
		}
	}
}

func c09CLI(c *Ctx) {
	dir := freshDir(c.Scratch, "c09cli")
	keyPath := filepath.Join(dir, "k.key")
	// the key file is created by the CLI itself on the first run (C11 checks its lifecycle)
	type sec struct {
		path []int
		text string
		cls  string
	}
	var lines []string
	var secs [][]sec
	var no int64
	body := func(x *X) *Case { return genCase(x, GenOpts{OneGate: true}) }
	var cur *Case
	Explore(func(x *X) { cur = body(x) }, ExploreOpts{Bound: 0}, func(x *X) {
		no++
		if !c.Mine(no) {
			return
		}
		paths := indexPaths(cur.Root)
		var ss []sec
		for _, s := range cur.Secrets {
			if s.Lab.K == LabSecret && s.Kind == JStr {
				ss = append(ss, sec{paths[s], s.Str, s.Lab.Class})
			}
		}
		if len(ss) == 0 {
			return
		}
		lines = append(lines, cur.Root.JSON())
		secs = append(secs, ss)
	})
	// content classes as filter values, short and long
	for ci, cl := range c09Classes {
		for _, n := range []int{0, 1, 2, 15, 16, 17, 64, 700} {
			no++
			if !c.Mine(no) {
				continue
			}
			pt := cl.text(n)
			if strings.ContainsRune(pt, 0) {
				pt = strings.ReplaceAll(pt, "\x00", "\x02") // a NUL cannot be compared through argv / stdout reliably
			}
			in := LO("t", LO("$date", LS("2024-05-01T10:00:00.123+00:00")), "s", LS("I"), "c", LS("COMMAND"), "id", LN("1"), "ctx", LS("c"), "msg", LS("Slow query"),
				"attr", LO("ns", LS("d.c"), "command", LO("find", LS("c"), "filter", LO("fld", LS(pt)), "$db", LS("d"))))
			lines = append(lines, in.JSON())
			secs = append(secs, []sec{{[]int{6, 1, 1, 0}, pt, fmt.Sprintf("class%d", ci)}})
		}
	}
	// texts that mean something to a routine that prints, formats or parses arguments: printf verbs, a leading dash,
	// shell and format metacharacters - what comes back from `decrypt` must be the text itself
	for si, pt := range []string{"15% off", "%s %d %v %q %x %n %!", "100%%", "%", "%!s(MISSING)", "-leading-dash", "--help", "a\\tb \\n \\u0041", "echo $HOME `id` $(id)", "{{.}} {0} %(x)s", "tab\there", "semi;colon|pipe&amp", "trailing blank ", "LIKE '%x%'"} {
		no++
		if !c.Mine(no) {
			continue
		}
		in := LO("t", LO("$date", LS("2024-05-01T10:00:00.123+00:00")), "s", LS("I"), "c", LS("COMMAND"), "id", LN("1"), "ctx", LS("c"), "msg", LS("Slow query"),
			"attr", LO("ns", LS("d.c"), "command", LO("find", LS("c"), "filter", LO("fld", LS(pt)), "$db", LS("d"))))
		lines = append(lines, in.JSON())
		secs = append(secs, []sec{{[]int{6, 1, 1, 0}, pt, fmt.Sprintf("special%d", si)}})
	}
	if len(lines) == 0 {
		return
	}
	inPath, outPath := filepath.Join(dir, "in.log"), filepath.Join(dir, "out.log")
	os.WriteFile(inPath, []byte(strings.Join(lines, "\n")+"\n"), 0o644)
	res, err := runCLI(CLIRun{Bin: c.CLI, Args: []string{"redact", inPath, "--encrypt", "--encryptionKeyFile", keyPath, "--outputFile", outPath}, Dir: dir})
	if err != nil {
		c.HarnessError("C09 CLI: %v", err)
		return
	}
	if res.Exit != 0 {
		c.Violate("cli:redact-exit", fmt.Sprintf("redact --encrypt exits %d: %s", res.Exit, trunc(string(res.Stderr), 300)), 0, map[string]any{"kind": "cli-redact"}, nil)
		return
	}
	ob, _ := os.ReadFile(outPath)
	outs := strings.Split(strings.TrimSuffix(string(ob), "\n"), "\n")
	if len(outs) != len(lines) {
		c.Violate("cli:line-count", fmt.Sprintf("redact --encrypt emits %d lines for %d input lines", len(outs), len(lines)), 0, map[string]any{"kind": "cli-redact"}, nil)
		return
	}
	want := map[string]string{} // ciphertext text -> original
	var order []string
	for i, o := range outs {
		j, err := ParseJSON([]byte(o))
		if err != nil {
			continue
		}
		for _, s := range secs[i] {
			n := follow(j, s.path)
			if n == nil || n.Kind != JStr {
				continue
			}
			if prev, ok := want[n.Str]; ok {
				if prev != s.text {
					c.Violate("cli:ciphertext-collision", fmt.Sprintf("two different plaintexts %q and %q are emitted as the same text %q", trunc(prev, 40), trunc(s.text, 40), trunc(n.Str, 40)), 0, map[string]any{"kind": "cli-redact"}, nil)
				}
				continue
			}
			want[n.Str] = s.text
			order = append(order, n.Str)
		}
	}
	limit := 40
	if c.Thorough() {
		limit = 400
	}
	if len(order) > limit {
		// keep the content-class lines (at the end) and a prefix of the grammar lines
		keep := append([]string{}, order[:limit/2]...)
		keep = append(keep, order[len(order)-limit/2:]...)
		order = keep
		c.Note("each worker decrypts %d of its ciphertexts through the CLI (first and last of its share)", limit)
	}
	decrypt := func(text, kp string) (CLIRes, error) {
		return runCLI(CLIRun{Bin: c.CLI, Args: []string{"decrypt", "--decryptionKeyFile", kp, "--", text}, Dir: dir})
	}
	for _, ctText := range order {
		orig := want[ctText]
		r, err := decrypt(ctText, keyPath)
		if err != nil {
			c.HarnessError("C09 CLI: %v", err)
			return
		}
		c.Eval(1)
		c.Count("cli_decrypt_runs", 1)
		c.Distinct("ct:" + ctText)
		so := string(r.Stdout)
		i := strings.Index(so, "Raw value: ")
		got := ""
		if i >= 0 {
			got = strings.TrimSuffix(so[i+len("Raw value: "):], "\n")
		}
		if r.Exit != 0 || i < 0 || got != orig {
			c.Outcome("cli-roundtrip-broken")
			c.Violate("cli:roundtrip", fmt.Sprintf("`decrypt` does not give back the original %q for the text %q emitted by `redact --encrypt`: exit %d, stdout %q, stderr %q", trunc(orig, 60), trunc(ctText, 60), r.Exit, trunc(so, 120), trunc(string(r.Stderr), 120)), int64(len(orig)),
				map[string]any{"kind": "cli-roundtrip", "ciphertext": ctText, "original": orig}, nil)
		} else {
			c.Outcome("cli-roundtrip-ok")
		}
	}
	// corrupted texts and wrong keys through the CLI (shard 0 only: a fixed small set)
	if c.Shard != 0 || len(order) == 0 {
		return
	}
	wrongKey := filepath.Join(dir, "wrong.key")
	wk := append([]byte(nil), harnessKey...)
	os.WriteFile(wrongKey, []byte(base64.StdEncoding.EncodeToString(wk)), 0o600)
	const b64 = "ABCDEFGHIJKLMNOPQRSTUVWXYZabcdefghijklmnopqrstuvwxyz0123456789+/"
	var shortest string
	for _, t := range order {
		if shortest == "" || len(t) < len(shortest) {
			shortest = t
		}
	}
	targets := []string{shortest}
	if c.Thorough() {
		targets = append(targets, order[0])
	}
	expectFail := func(text, kp, what string) {
		r, err := decrypt(text, kp)
		if err != nil {
			c.HarnessError("C09 CLI: %v", err)
			return
		}
		c.Eval(1)
		c.Count("cli_corruption_runs", 1)
		if r.Exit == 0 || bytes.Contains(r.Stdout, []byte("Raw value:")) {
			c.Outcome("cli-corruption-accepted")
			c.Violate("cli:corruption-accepted:"+what, fmt.Sprintf("`decrypt %q` (%s) exits %d and prints %q", trunc(text, 60), what, r.Exit, trunc(string(r.Stdout), 200)), int64(len(text)),
				map[string]any{"kind": "cli-corruption", "text": text, "what": what}, nil)
		} else {
			c.Outcome("cli-corruption-rejected")
		}
	}
	for _, t := range targets {
		raw, _ := base64.StdEncoding.DecodeString(t)
		expectFail(t, wrongKey, "wrong-key")
		for i := 0; i < len(t); i++ {
			for k := 0; k < len(b64); k++ {
				if !c.Thorough() && k%8 != i%8 {
					continue // quick: 8 of the 64 substitute characters per position
				}
				if t[i] == b64[k] {
					continue
				}
				m := t[:i] + string(b64[k]) + t[i+1:]
				if dec, err := base64.StdEncoding.DecodeString(m); err == nil && bytes.Equal(dec, raw) {
					continue // same ciphertext bytes (unused padding bits): not an alteration
				}
				expectFail(m, keyPath, "substituted-character")
			}
		}
		for cut := 0; cut < len(t); cut += 4 {
			expectFail(t[:cut], keyPath, fmt.Sprintf("truncated-to-%d", cut))
		}
	}
}

func init() {
	register(&PropDef{
		ID: "C09", Level: "exploration",
		Rule:        "(1) every plaintext length 0..300 plus block boundaries up to 4096 (thorough: every length 0..4096) x 7 content classes (ASCII, 2/3/4-byte UTF-8, control characters incl. NUL, base64-looking, JSON-looking) x 5 keys (fixed, all-zero, all-0xFF, counting, scrambled): Decrypt(Encrypt(p)) == p, and for 2 keys the same plaintext placed in a filter and an $in array of a real line under --encrypt: the emitted text is strict standard base64 that decrypts to the original; (2) plaintext lengths {0,1,15,16,17,33}: every offset x 51 (thorough: all 255) substitute byte values, every truncation (incl. to 0 bytes), one appended byte, every key differing in one byte (3 values): Decrypt must return an error; (3) CLI end to end: `redact --encrypt` (key file created by the run) over the 0-deviation grammar corpus and content-class lines, then `decrypt` on distinct ciphertexts found at SECRET string positions (quick 40, thorough 400 per worker): stdout 'Raw value: ' + original, exit 0; every position of the shortest ciphertext text x substitute base64 characters, truncations to every multiple of 4 (incl. empty), wrong key file: non-zero exit and no 'Raw value:' line. distinct = (class,length) pairs + distinct ciphertexts decrypted through the CLI" + "; literals that are ciphertexts of the same key (inner lengths 0..200); one in-process history of 12 000 (thorough 150 000) distinct values then the first ones again",
		Assumptions: []string{"5 keys out of 2^512; the strength of AES-SIV is Tink's", "a base64 text that decodes to the same ciphertext bytes is not an alteration", "NUL bytes are compared in-process only (argv cannot carry them)"},
		Run:         c09Run,
	})
}
