//go:build verif

package main

// Stateless depth-first explorer over choice sequences (DESIGN.md 2.2).
//
// A body is an ordinary function that calls x.Free / x.Costly wherever "something could be
// otherwise".  Explore runs it with a prefix replayed and the default (0) taken afterwards, records
// the menu of every choice point reached, and then re-runs it for every alternative at every
// position behind the prefix whose number of deviations (non-default costly choices) stays within
// the bound.  Every complete choice vector within the bound is executed exactly once.

import (
	"fmt"
	"hash/fnv"
)

type X struct {
	prefix []int
	trace  []int
	menus  []int
	costly []bool
	pos    int
	skip   bool
	// sharding: positions < shardDepth decide the shard
	shardDepth     int
	shard, nshards int
	shardDecided   bool
	Labels         []string
	recordLabels   bool
}

type xAbort struct{}
type xDiverge struct{ msg string }

func (x *X) choose(n int, costly bool, label string) int {
	if n <= 0 {
		panic(xDiverge{fmt.Sprintf("choice point %q with empty menu", label)})
	}
	if !x.shardDecided && x.nshards > 1 && x.pos == x.shardDepth {
		x.decideShard()
	}
	c := 0
	if x.pos < len(x.prefix) {
		c = x.prefix[x.pos]
		if c >= n {
			panic(xDiverge{fmt.Sprintf("replay divergence at position %d (%s): choice %d, menu %d", x.pos, label, c, n)})
		}
	}
	x.trace = append(x.trace, c)
	x.menus = append(x.menus, n)
	x.costly = append(x.costly, costly)
	if x.recordLabels {
		x.Labels = append(x.Labels, label)
	}
	x.pos++
	return c
}

func (x *X) decideShard() {
	x.shardDecided = true
	h := fnv.New32a()
	for _, c := range x.trace {
		h.Write([]byte{byte(c), byte(c >> 8)})
	}
	if int(h.Sum32()%uint32(x.nshards)) != x.shard {
		panic(xAbort{})
	}
}

// Free is a choice point that is always enumerated as a full product (cost 0).
func (x *X) Free(n int, label string) int { return x.choose(n, false, label) }

// Costly is a choice point whose non-default alternatives cost one deviation.
func (x *X) Costly(n int, label string) int { return x.choose(n, true, label) }

// Skip marks the current execution as not a case (an ungrammatical combination).
func (x *X) Skip() { x.skip = true }

func (x *X) Trace() []int { return append([]int(nil), x.trace...) }

// Deviations of the current execution.
func (x *X) Deviations() int {
	d := 0
	for i, c := range x.trace {
		if x.costly[i] && c != 0 {
			d++
		}
	}
	return d
}

type ExploreStats struct {
	Executions   int64 // complete executions of the body (this shard)
	Skipped      int64 // executions the body declared ungrammatical
	Aborted      int64 // executions cut short because they belong to another shard
	ChoicePoints int64 // choice points passed in complete executions
	MaxDepth     int
	MaxDev       int
	Bound        int
}

type ExploreOpts struct {
	Bound      int // max deviations per execution; <0 = unbounded
	ShardDepth int
	Shard      int
	NShards    int
	Prefix     []int // start below this prefix (replay when Only is set)
	Only       bool  // run exactly Prefix (with defaults afterwards) and nothing else
	Labels     bool
}

// Explore enumerates all executions of body within the bound.  visit is called after each complete,
// non-skipped execution.  A panic of the body other than the explorer's own sentinels propagates.
func Explore(body func(*X), o ExploreOpts, visit func(*X)) ExploreStats {
	st := ExploreStats{Bound: o.Bound}
	if o.NShards < 1 {
		o.NShards = 1
	}
	stack := [][]int{append([]int(nil), o.Prefix...)}
	for len(stack) > 0 {
		prefix := stack[len(stack)-1]
		stack = stack[:len(stack)-1]
		x := &X{prefix: prefix, shardDepth: o.ShardDepth, shard: o.Shard, nshards: o.NShards, recordLabels: o.Labels}
		aborted := runBody(body, x)
		if !aborted && !x.shardDecided && x.nshards > 1 {
			// the body ended before the shard depth: decide now
			func() {
				defer func() {
					if r := recover(); r != nil {
						if _, ok := r.(xAbort); ok {
							aborted = true
							return
						}
						panic(r)
					}
				}()
				x.decideShard()
			}()
		}
		if len(x.trace) < len(prefix) {
			if !aborted {
				panic(fmt.Sprintf("explorer: replay divergence: prefix %v longer than execution %v", prefix, x.trace))
			}
		}
		if aborted {
			st.Aborted++
		} else if x.skip {
			st.Skipped++
		} else {
			st.Executions++
			st.ChoicePoints += int64(len(x.trace))
			if len(x.trace) > st.MaxDepth {
				st.MaxDepth = len(x.trace)
			}
			if d := x.Deviations(); d > st.MaxDev {
				st.MaxDev = d
			}
			visit(x)
		}
		if o.Only {
			break
		}
		// cost of the prefix
		base := 0
		for i := 0; i < len(prefix) && i < len(x.trace); i++ {
			if x.costly[i] && x.trace[i] != 0 {
				base++
			}
		}
		// push alternatives in reverse so that the simplest (earliest position, smallest alt) pops first
		for i := len(x.trace) - 1; i >= len(prefix); i-- {
			cost := base
			if x.costly[i] {
				cost++
			}
			if o.Bound >= 0 && cost > o.Bound {
				continue
			}
			for alt := x.menus[i] - 1; alt >= 1; alt-- {
				np := make([]int, i+1)
				copy(np, x.trace[:i])
				np[i] = alt
				stack = append(stack, np)
			}
		}
	}
	return st
}

func runBody(body func(*X), x *X) (aborted bool) {
	defer func() {
		if r := recover(); r != nil {
			switch v := r.(type) {
			case xAbort:
				aborted = true
			case xDiverge:
				panic("explorer: " + v.msg)
			default:
				panic(r)
			}
		}
	}()
	body(x)
	return false
}
