//go:build verif

package main

import (
	"bufio"
	"fmt"
	"os"
	"strings"
)

// VERIF_MODE=probe: reads lines from stdin, redacts them in-process under VERIF_FLAGS
// (letters NBIWY, R=<text>, F=<ns>, Z=<re>; space separated) and prints the result.
func probeMain() int {
	var f Flags
	for _, t := range strings.Fields(os.Getenv("VERIF_FLAGS")) {
		switch {
		case strings.HasPrefix(t, "R="):
			f.R = t[2:]
		case strings.HasPrefix(t, "F="):
			f.F = append(f.F, t[2:])
		case strings.HasPrefix(t, "Z="):
			f.Z = t[2:]
		default:
			for _, ch := range t {
				switch ch {
				case 'N':
					f.N = true
				case 'B':
					f.B = true
				case 'I':
					f.I = true
				case 'W':
					f.W = true
				case 'Y':
					f.Y = true
				}
			}
		}
	}
	f.Apply()
	sc := bufio.NewScanner(os.Stdin)
	sc.Buffer(make([]byte, 1<<20), 1<<26)
	for sc.Scan() {
		out, ok, pv := redactLine(sc.Text())
		switch {
		case pv != nil:
			fmt.Printf("PANIC: %v\n", pv)
		case !ok:
			fmt.Println("REJECTED")
		default:
			fmt.Println(out)
		}
	}
	return 0
}
