//go:build verif

package main

// Line-length sweep on the real stream code (processMongoLogStream through its three public wrappers).
// For EVERY byte length L of a range that spans the reader's buffer sizes and its line limit, a three-line input
// [short command line, a line of exactly L bytes, short command line] is pushed through the stream entry points
// and compared with the one-line in-process results.  Line readers that assemble long lines from fragments,
// read-ahead buffers, scratch buffers and "token too long" handling only misbehave at particular lengths
// (a multiple of the buffer size, one byte over a threshold); sweeping every length leaves no such length out.
//
// Five line shapes decide what the length consists of:
//   secret-pad   the length is that of a SECRET literal              -> all outputs identical (C02), == solo (C06)
//   keep-blanks  another component's line, padding of blanks in KEEP -> output tree-equal to the input (C04)
//   keep-mixed   command line, KEEP attribute "ab cd …" + secrets    -> KEEP text identical (C04), == solo (C06)
//   keep-multibyte another component's line, 2-/3-/4-byte characters at every alignment -> tree-equal to the input (C04, C06)
//   fixed-point  an already redacted command line with KEEP padding  -> output == input bytes (C19)
//   array-pad    $in array of short strings (output longer than in)  -> == solo (C06); pass 2 == pass 1 (C19)

import (
	"fmt"
	"strings"
)

type slShape struct {
	name string
	mk   func(pad int) string // the line with pad bytes of padding
}

func slPadBlanks(n int) string { return strings.Repeat(" ", n) }
func slPadMixed(n int) string  { return strings.Repeat("ab cd  e f ", n/11+1)[:n] }
func slPadX(n int) string      { return strings.Repeat("xyzzy0123456789", n/15+1)[:n] }

// slPadMultibyte: n bytes of 2-, 3- and 4-byte characters ("é日😀a", 10 bytes per period), shifted by n%10 ASCII
// bytes: as the length is swept, every alignment of every multi-byte character against every buffer boundary occurs
func slPadMultibyte(n int) string {
	lead := n % 10
	if lead > n {
		lead = n
	}
	rest := n - lead
	s := strings.Repeat("x", lead) + strings.Repeat("é日😀a", rest/10)
	return s + strings.Repeat("y", n-len(s))
}

var slShapes = []slShape{
	{"secret-pad", func(p int) string {
		return `{"t":{"$date":"2024-05-01T10:00:00.123+00:00"},"s":"I","c":"COMMAND","id":51803,"ctx":"conn7","msg":"Slow query","attr":{"type":"command","ns":"shop.orders","command":{"find":"orders","filter":{"note":"` + slPadMixed(p) + `","n":{"$gt":41}},"$db":"shop"},"durationMillis":12}}`
	}},
	{"keep-blanks", func(p int) string {
		return `{"t":{"$date":"2024-05-01T10:00:02.000+00:00"},"s":"I","c":"NETWORK","id":22943,"ctx":"listener","msg":"Connection accepted","attr":{"remote":"192.168.1.5:51234","note":"` + slPadBlanks(p) + `","connectionId":12}}`
	}},
	{"keep-mixed", func(p int) string {
		return `{"t":{"$date":"2024-05-01T10:00:00.123+00:00"},"s":"I","c":"COMMAND","id":51803,"ctx":"conn7","msg":"Slow query","attr":{"type":"command","ns":"shop.orders","appName":"` + slPadMixed(p) + `","command":{"find":"orders","filter":{"email":"alice@example.com"},"$db":"shop"},"durationMillis":7469113720208097282}}`
	}},
	{"keep-multibyte", func(p int) string {
		return `{"t":{"$date":"2024-05-01T10:00:02.000+00:00"},"s":"I","c":"NETWORK","id":22943,"ctx":"listener","msg":"Connection accepted","attr":{"remote":"192.168.1.5:51234","note":"` + slPadMultibyte(p) + `","connectionId":12}}`
	}},
	{"fixed-point", func(p int) string {
		return `{"t":{"$date":"2024-05-01T10:00:00.123+00:00"},"s":"I","c":"COMMAND","id":51803,"ctx":"conn7","msg":"Slow query","attr":{"type":"command","ns":"shop.orders","appName":"` + slPadX(p) + `","command":{"find":"orders","filter":{"email":"redacted@redacted.com","name":"REDACTED","_id":{"$oid":"000000000000000000000000"}},"$db":"shop"},"durationMillis":12}}`
	}},
	{"array-pad", func(p int) string {
		// elements of 5 bytes ("ab",) ; the remainder goes into the last element
		n := p / 5
		var sb strings.Builder
		for i := 0; i < n; i++ {
			sb.WriteString(`"ab",`)
		}
		sb.WriteString(`"` + slPadX(p-5*n) + `"`)
		return `{"t":{"$date":"2024-05-01T10:00:00.123+00:00"},"s":"I","c":"COMMAND","id":51803,"ctx":"conn7","msg":"Slow query","attr":{"type":"command","ns":"shop.orders","command":{"find":"orders","filter":{"k":{"$in":[` + sb.String() + `]}},"$db":"shop"},"durationMillis":12}}`
	}},
}

const slHead = `{"t":{"$date":"2024-05-01T09:59:59.000+00:00"},"s":"I","c":"COMMAND","id":51803,"ctx":"conn1","msg":"Slow query","attr":{"type":"command","ns":"shop.orders","command":{"find":"orders","filter":{"who":"head secret"},"$db":"shop"},"durationMillis":1}}`
const slTail = `{"t":{"$date":"2024-05-01T10:00:09.000+00:00"},"s":"I","c":"COMMAND","id":51803,"ctx":"conn2","msg":"Slow query","attr":{"type":"command","ns":"shop.orders","command":{"count":"orders","query":{"who":"tail secret"},"$db":"shop"},"durationMillis":2}}`

// streamLenSweep runs the sweep for one property.  maxL: largest line length (the reader's limit is 64 KiB, so a
// bound above it also visits "one byte over").  Oracles by property:
//
//	C06: stream output == solo(head) + solo(long) + solo(tail), or an explicit error with a whole-line prefix
//	C02: for the secret-pad shape every accepted length gives the same output bytes
//	C04: KEEP texts / other-component lines unchanged (tree-equal to the input)
//	C19: fixed-point lines are reproduced byte for byte; array-pad: pass 2 of the stream == pass 1
func streamLenSweep(c *Ctx, prop string, shapes []string, fl Flags) {
	maxL := 66600
	if c.Thorough() {
		maxL = 140000
	}
	want := map[string]bool{}
	for _, s := range shapes {
		want[s] = true
	}
	fl.Apply()
	defer Flags{}.Apply()
	if c.Shard == 0 {
		c.Sample(map[string]any{"group": "stream-length", "shapes": shapes, "example_L200": slShapes[0].mk(0)})
	}
	soloHead, okH, _ := redactLine(slHead)
	soloTail, okT, _ := redactLine(slTail)
	if !okH || !okT {
		// both are plain command lines: only state left behind by earlier input can make the tool refuse them
		if prop == "C06" {
			c.Violate("stream-length:valid-line-rejected", "an ordinary command line is rejected in-process after other input has been handled (on its own it is accepted): the result for a line depends on what was processed before", 0,
				map[string]any{"kind": "stream-length", "line": slHead}, nil)
		}
		return
	}
	for _, sh := range slShapes {
		if !want[sh.name] {
			continue
		}
		base := len(sh.mk(0))
		var firstOut string // C02: output of the smallest accepted length
		firstOut, _, _ = redactLine(sh.mk(0))
		for L := base; L <= maxL; L++ {
			if !c.Mine(int64(L)) {
				continue
			}
			// quick tier: every length up to 9 000 (two 4 KiB buffers), every length around the 64 KiB limit, and
			// the neighbourhood (-2..+2) of every multiple of 256 in between; thorough: every length
			if !c.Thorough() && L > 9000 && L < 65400 && L%256 > 2 && L%256 < 254 {
				continue
			}
			line := sh.mk(L - base)
			if len(line) != L {
				c.HarnessError("stream length sweep: shape %s built %d bytes for L=%d", sh.name, len(line), L)
				return
			}
			solo, okS, pv := redactLine(line)
			c.Eval(1)
			if pv != nil {
				c.Count("skipped_panics", 1)
				continue
			}
			if !okS {
				if prop == "C06" {
					c.Violate("stream-length:valid-line-rejected", fmt.Sprintf("a well-formed %d-byte command line (%s) is rejected in-process", L, sh.name), int64(L), map[string]any{"kind": "stream-length", "shape": sh.name, "length": L}, nil)
				}
				continue
			}
			chans := []string{"reader"}
			if L%512 <= 2 || L%512 >= 510 || L%97 == 0 {
				chans = c06InChannels
			}
			for _, ch := range chans {
				text := slHead + "\n" + line + "\n" + slTail + "\n"
				out, err, pv2 := c06RunInproc(text, 3, ch, "nobar")
				c.Eval(1)
				c.Distinct(fmt.Sprintf("%s|%s|%d|%s", prop, sh.name, L, ch))
				rep := map[string]any{"kind": "stream-length", "shape": sh.name, "length": L, "channel": ch, "flags": fl.String()}
				sigp := "stream-length:" + sh.name + ":"
				if pv2 != nil {
					if prop == "C06" {
						c.Count("skipped_panics", 1)
					}
					continue
				}
				if err != nil {
					// explicit rejection (over-long line): what was written must be a whole-line prefix
					c.Outcome("explicit-error")
					if prop == "C06" && out != "" && out != soloHead+"\n" {
						c.Violate(sigp+"error-with-partial-output", fmt.Sprintf("a %d-byte line (%s) ends the run with %v, and the output is not a whole-line prefix: %q", L, sh.name, err, trunc(out, 200)), int64(L), rep, nil)
					}
					continue
				}
				c.Outcome("processed")
				expect := soloHead + "\n" + solo + "\n" + soloTail + "\n"
				switch prop {
				case "C06":
					if out != expect {
						c.Violate(sigp+"not-the-concatenation", fmt.Sprintf("a 3-line input whose middle line has %d bytes (%s) through %s: %d output lines / %d bytes instead of 3 lines / %d bytes (the one-line results concatenated)", L, sh.name, ch, strings.Count(out, "\n"), len(out), len(expect)), int64(L), rep, nil)
					}
				case "C02":
					mid := slMiddle(out)
					if out != soloHead+"\n"+firstOut+"\n"+soloTail+"\n" {
						c.Violate(sigp+"output-depends-on-literal-length", fmt.Sprintf("the output of the stream differs when the redacted literal makes the line %d bytes long (through %s): middle line %q… vs %q…", L, ch, trunc(mid, 120), trunc(firstOut, 120)), int64(L), rep, nil)
					}
				case "C04":
					mid := slMiddle(out)
					ji, e1 := ParseJSON([]byte(line))
					jo, e2 := ParseJSON([]byte(mid))
					bad := e1 != nil || e2 != nil
					if !bad {
						if sh.name == "keep-blanks" || sh.name == "keep-multibyte" {
							bad = !jEqual(ji, jo)
						} else {
							a, b := jGet(ji, "attr", "appName"), jGet(jo, "attr", "appName")
							bad = a == nil || b == nil || a.Str != b.Str
						}
					}
					if bad {
						c.Violate(sigp+"text-outside-zones-altered", fmt.Sprintf("a %d-byte line (%s) through %s: text outside the redaction zones comes out altered (or the line is lost)", L, sh.name, ch), int64(L), rep, nil)
					}
				case "C19":
					mid := slMiddle(out)
					if sh.name == "fixed-point" {
						if mid != line {
							c.Violate(sigp+"redacted-line-not-reproduced", fmt.Sprintf("an already redacted line of %d bytes through %s is not reproduced byte for byte (%d bytes out)", L, ch, len(mid)), int64(L), rep, nil)
						}
					} else {
						out2, err2, _ := c06RunInproc(out, 3, ch, "nobar")
						c.Eval(1)
						if err2 != nil {
							c.Outcome("pass2-explicit-error")
						} else if out2 != out {
							c.Violate(sigp+"second-pass-differs", fmt.Sprintf("a %d-byte line whose redaction has %d bytes: feeding the output of the stream back through %s gives %d lines / %d bytes instead of %d lines / %d bytes", L, len(mid), ch, strings.Count(out2, "\n"), len(out2), strings.Count(out, "\n"), len(out)), int64(L), rep, nil)
						}
					}
				}
			}
		}
	}
	c.Count("max:stream_line_length", int64(maxL))
}

// slMiddle: the second line of a three-line output ("" if there is none)
func slMiddle(out string) string {
	p := strings.SplitN(out, "\n", 3)
	if len(p) < 3 {
		return ""
	}
	return p[1]
}

func jGet(j *JNode, path ...string) *JNode {
	for _, k := range path {
		if j == nil || j.Kind != JObj {
			return nil
		}
		var nx *JNode
		for i, kk := range j.Keys {
			if kk == k {
				nx = j.Kids[i]
				break
			}
		}
		j = nx
	}
	return j
}

func jEqual(a, b *JNode) bool {
	if a == nil || b == nil || a.Kind != b.Kind || len(a.Kids) != len(b.Kids) {
		return false
	}
	switch a.Kind {
	case JStr:
		return a.Str == b.Str
	case JNum:
		return a.Num == b.Num
	case JBool:
		return a.Bool == b.Bool
	case JObj:
		for i := range a.Keys {
			if a.Keys[i] != b.Keys[i] {
				return false
			}
		}
	}
	for i := range a.Kids {
		if !jEqual(a.Kids[i], b.Kids[i]) {
			return false
		}
	}
	return true
}
