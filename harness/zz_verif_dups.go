//go:build verif

package main

// Documents that repeat a field name.  JSON text may hold the same member name twice, and mongod logs such documents as
// they were sent.  The shape oracles (C03) leave them out, because the statement does; the absence oracles do not: no
// literal of a query-bearing part may survive, whichever of the repeated members it sits under (C01), and in selective
// mode a literal under a matching name is redacted at EVERY occurrence of that name (C14).

import (
	"fmt"
	"strings"
)

type dupCase struct {
	desc     string
	line     string
	canaries []string
}

// duplicateKeyCases: 5 command slots x 6 document shapes with a repeated name x the name given.
func duplicateKeyCases(name string) []dupCase {
	n := 0
	can := func() string { n++; return fmt.Sprintf("dupQ7~%d~Zk", n) }
	var out []dupCase
	shapes := []struct {
		name string
		mk   func(c []string) *LNode
	}{
		{"two literals", func(c []string) *LNode { return LO(name, LS("first "+c[0]), name, LS("second "+c[1])) }},
		{"literal then operator document", func(c []string) *LNode {
			return LO(name, LS("first "+c[0]), name, LO("$gte", LS("second "+c[1])))
		}},
		{"two operator documents", func(c []string) *LNode {
			return LO(name, LO("$gte", LS("first "+c[0])), name, LO("$nin", LA(LS("second "+c[1]), LS("third "+c[2]))))
		}},
		{"another member in between", func(c []string) *LNode {
			return LO(name, LS("first "+c[0]), "between", LS("other "+c[2]), name, LS("second "+c[1]))
		}},
		{"three times", func(c []string) *LNode {
			return LO(name, LS("first "+c[0]), name, LS("second "+c[1]), name, LO("sub", LS("third "+c[2])))
		}},
		{"repeated inside an embedded document", func(c []string) *LNode {
			return LO("outer", LO(name, LS("first "+c[0]), name, LA(LS("second "+c[1]), LO(name, LS("third "+c[2])))))
		}},
	}
	slots := []struct {
		name string
		mk   func(d *LNode) *LNode
	}{
		{"find.filter", func(d *LNode) *LNode { return LO("find", LS("staff"), "filter", d, "$db", LS("hr")) }},
		{"update.u.$set", func(d *LNode) *LNode {
			return LO("update", LS("staff"), "updates", LA(LO("q", LO("k", LS("v")), "u", LO("$set", d))), "$db", LS("hr"))
		}},
		{"insert.documents", func(d *LNode) *LNode { return LO("insert", LS("staff"), "documents", LA(d), "$db", LS("hr")) }},
		{"aggregate.$match", func(d *LNode) *LNode {
			return LO("aggregate", LS("staff"), "pipeline", LA(LO("$match", d)), "cursor", LO(), "$db", LS("hr"))
		}},
		{"delete.q", func(d *LNode) *LNode { return LO("delete", LS("staff"), "deletes", LA(LO("q", d, "limit", LN("1"))), "$db", LS("hr")) }},
	}
	for _, sl := range slots {
		for _, sh := range shapes {
			c := []string{can(), can(), can()}
			cmd := sl.mk(sh.mk(c))
			root := LO("t", LO("$date", LS("2024-05-01T10:00:00.123+00:00")), "s", LS("I"), "c", LS("COMMAND"), "id", LN("51803"), "ctx", LS("conn7"), "msg", LS("Slow query"),
				"attr", LO("type", LS("command"), "ns", LS("hr.staff"), "command", cmd, "durationMillis", LN("3")))
			line := root.JSON()
			var present []string
			for _, x := range c {
				if strings.Contains(line, x) {
					present = append(present, x)
				}
			}
			out = append(out, dupCase{sl.name + ", " + sh.name, line, present})
		}
	}
	return out
}

// duplicateKeyCheck: every canary of every case must be absent from the output under each flag set.  whichOK (may be
// nil) restricts the canaries looked at (selective mode: only the ones under the matching name).
func duplicateKeyCheck(c *Ctx, sigPrefix, name string, fsets []Flags, only func(canaryText string, line string) bool) {
	if c.NShards > 1 && c.Shard != 5%c.NShards {
		return
	}
	for _, dc := range duplicateKeyCases(name) {
		for _, fl := range fsets {
			fl.Apply()
			out, ok, pv := redactLine(dc.line)
			c.Eval(1)
			c.Distinct(sigPrefix + "|dup|" + dc.desc + "|" + fl.String())
			if pv != nil || !ok {
				c.Count("skipped_panics_or_rejected", 1)
				continue
			}
			for _, can := range dc.canaries {
				if only != nil && !only(can, dc.line) {
					continue
				}
				if strings.Contains(out, can) {
					line := dc.line
					c.Violate(sigPrefix+":repeated-field-name", fmt.Sprintf("a document that repeats the field name %q (%s): the literal holding %s survives under flags [%s]; input: %s | output: %s", name, dc.desc, can, fl, trunc(line, 500), trunc(out, 500)),
						int64(len(line)), map[string]any{"kind": "redact", "flags": fl.String(), "input": line, "output": out},
						func() bool { fl.Apply(); o, _, _ := redactLine(line); return strings.Contains(o, can) })
					break
				}
			}
		}
	}
	Flags{}.Apply()
}
