//go:build verif

package main

// C03 — redaction preserves the JSON shape of every line.

import (
	"fmt"
	"regexp"
	"strings"
)

// shapeDiff compares the input tree with the parsed output: member names and order, array lengths,
// leaf types.  It returns "" or the first difference as (path, detail).
func shapeDiff(in *LNode, out *JNode, path []string) (string, string) {
	if in.Kind != out.Kind {
		return strings.Join(path, "."), in.Kind.String() + "→" + out.Kind.String()
	}
	switch in.Kind {
	case JObj:
		if len(in.Kids) != len(out.Kids) {
			// name the first missing / extra key
			for i, k := range in.Keys {
				if i >= len(out.Keys) || out.Keys[i] != k {
					return strings.Join(append(path, sigSeg(in, i)), "."), fmt.Sprintf("key-dropped (%d→%d members)", len(in.Kids), len(out.Kids))
				}
			}
			return strings.Join(path, "."), fmt.Sprintf("members %d→%d", len(in.Kids), len(out.Kids))
		}
		for i, k := range in.Keys {
			if out.Keys[i] != k {
				return strings.Join(append(path, sigSeg(in, i)), "."), "key-renamed-or-reordered"
			}
		}
		for i := range in.Kids {
			if p, d := shapeDiff(in.Kids[i], out.Kids[i], append(path, sigSeg(in, i))); d != "" {
				return p, d
			}
		}
	case JArr:
		if len(in.Kids) != len(out.Kids) {
			return strings.Join(path, "."), fmt.Sprintf("len %d→%d", len(in.Kids), len(out.Kids))
		}
		for i := range in.Kids {
			if p, d := shapeDiff(in.Kids[i], out.Kids[i], append(path, "[]")); d != "" {
				return p, d
			}
		}
	}
	return "", ""
}

func sigSeg(n *LNode, i int) string {
	if n.KeyLab != nil && i < len(n.KeyLab) && n.KeyLab[i] != KeyPlain {
		return "<f>"
	}
	return n.Keys[i]
}

// c03Eval evaluates the shape oracle for one (input tree, output); returns signature suffix and detail.
func c03Eval(root *LNode, out string, ok bool) (string, string) {
	if !ok {
		return "rejected", "a JSON-object line was rejected (no output line)"
	}
	if strings.ContainsAny(out, "\n\r") {
		return "multi-line", "the output spans several physical lines"
	}
	j, err := ParseJSON([]byte(out))
	if err != nil {
		return "malformed", "the output is not valid JSON: " + err.Error()
	}
	if j.Kind != JObj {
		return "non-object", "the output is not a JSON object"
	}
	p, d := shapeDiff(root, j, nil)
	if d == "" {
		return "", ""
	}
	p = strings.ReplaceAll(p, ".[]", "[]")
	return coarseLoc(p) + ":" + digitsRe.ReplaceAllString(d, "n"), "shape differs at " + p + ": " + d
}

var digitsRe = regexp.MustCompile(`[0-9]+`)

// coarseLoc keeps the first two segments below attr (container and zone key) and the last segment:
// with exhaustive enumeration one defect shows at thousands of paths.
func coarseLoc(p string) string {
	p = strings.TrimPrefix(p, "attr.")
	segs := strings.FieldsFunc(p, func(r rune) bool { return r == '.' })
	if len(segs) <= 3 {
		return strings.Join(segs, ".")
	}
	return segs[0] + "." + segs[1] + ".…." + segs[len(segs)-1]
}

var c03Flags = []Flags{
	{},
	{N: true, B: true},
	{I: true, W: true, R: customReplacement + " \x1b[31m del\x7f bel\a vt\v \U000e0001 \u2028"},
	{Y: true},
	{Z: "^(fld|a|status|k)$"},
	{N: true, B: true, I: true, W: true, Y: true},
	{N: true, Z: "^(fld|a|status|k)$", REmpty: true},
	{B: true, W: true, R: "x"},
}

func c03Run(c *Ctx) {
	fs := c03Flags
	if !c.Thorough() {
		fs = c03Flags[:5]
	}
	// --- G
	layers := []sweepLayer{
		{"L0", GenOpts{LeafSet: 1, AllGates: true}, 0, fs},
		{"L1", GenOpts{OneGate: true, LeafSet: 1}, 1, fs},
	}
	if c.Thorough() {
		layers = append(layers, sweepLayer{"L2", GenOpts{OneGate: true, LeafSet: 2}, 2, fs[:3]})
	}
	layers = append(layers, sweepLayer{"scale", GenOpts{Scale: true, ScaleThorough: c.Thorough()}, 0, fs[:3]})
	layers = append(layers, rootedLayers(c.Thorough(), fs[:3])...)
	layers = append(layers, sweepLayer{"L0-rich", GenOpts{LeafSet: 2, OneGate: true, RichEnv: true}, 0, fs[:2]})
	var corpus []string
	sweep(c, layers, func(sc *sweepCase) bool {
		if sc.C.Root.HasDup() {
			return false
		}
		c.Distinct(sc.Line)
		if sc.Layer == "L0-rich" || (sc.Layer == "L0" && sc.C.Gate == 0 && sc.C.Container == 0) {
			corpus = append(corpus, sc.Line)
		}
		return true
	}, func(sc *sweepCase, fl Flags, out string, ok bool, pv any) {
		if pv != nil {
			c.Count("skipped_panics", 1)
			return
		}
		sig, detail := c03Eval(sc.C.Root, out, ok)
		if sig == "" {
			c.Outcome("same-shape")
			return
		}
		c.Outcome("differs")
		// location relative to the command document where possible
		line := sc.Line
		root := sc.C.Root
		c.Violate("shape:"+sig, fmt.Sprintf("%s; flags [%s]; input: %s", detail, fl, trunc(line, 600)), int64(len(line)),
			replayOf(sc, fl, map[string]any{"output": out}),
			func() bool { fl.Apply(); o, k, _ := redactLine(line); s, _ := c03Eval(root, o, k); return s != "" })
	})
	// the shape verdicts carry over to the real CLI (file / --outputFile onto a stale file, two locales) when it emits
	// what the in-process redaction emits
	cliCorpusPass(c, "L0", corpus, fs[:4], true)
	// --- namespace-bearing pipeline stages in all their forms (string, document in several member orders) at nesting
	// depth 0..3, with and without --redactNamespaces
	{
		o := GenOpts{DB: "dbZq1", Coll: "coQx7", LeafSet: 2}
		var cs *Case
		Explore(func(x *X) { cs = c12GenStageCase(x, o) }, ExploreOpts{Bound: -1, ShardDepth: 3, Shard: c.Shard, NShards: c.NShards}, func(x *X) {
			if cs.Gate != 0 && cs.Container != 0 {
				return
			}
			line, root := cs.Root.JSON(), cs.Root
			c.Distinct(line)
			for _, fl := range []Flags{{W: true}, {W: true, N: true, B: true, R: customReplacement}, {}} {
				fl.Apply()
				out, ok, pv := redactLine(line)
				c.Eval(1)
				if pv != nil {
					c.Count("skipped_panics", 1)
					continue
				}
				if sig, detail := c03Eval(root, out, ok); sig != "" {
					c.Outcome("differs")
					fl := fl
					c.Violate("shape:"+sig, fmt.Sprintf("%s; %s; flags [%s]; input: %s", detail, cs.SlotName, fl, trunc(line, 600)), int64(len(line)),
						map[string]any{"kind": "redact-line", "input": line, "flags": fl.String(), "output": out},
						func() bool { fl.Apply(); o, k, _ := redactLine(line); s, _ := c03Eval(root, o, k); return s != "" })
				} else {
					c.Outcome("same-shape")
				}
			}
		})
	}
	// --- T
	paths, _ := vocabPaths(c.Src)
	vals := tValues()
	places := tPlacements()
	var cur struct {
		root *LNode
		line string
		desc string
	}
	st := Explore(func(x *X) {
		l, _, _, d := genT(x, paths, vals, places)
		cur.root, cur.desc = l, d
	}, ExploreOpts{Bound: -1, ShardDepth: 2, Shard: c.Shard, NShards: c.NShards}, func(x *X) {
		if cur.root.HasDup() {
			return
		}
		cur.line = cur.root.JSON()
		c.Distinct(cur.line)
		for _, fl := range fs {
			fl.Apply()
			out, ok, pv := redactLine(cur.line)
			c.Eval(1)
			if pv != nil {
				c.Count("skipped_panics", 1)
				continue
			}
			sig, detail := c03Eval(cur.root, out, ok)
			if sig == "" {
				c.Outcome("same-shape")
				continue
			}
			c.Outcome("differs")
			line, root, desc := cur.line, cur.root, cur.desc
			c.Violate("shape:"+sig, fmt.Sprintf("%s; tree %s; flags [%s]; input: %s", detail, desc, fl, trunc(line, 500)), int64(len(line)),
				map[string]any{"kind": "redact-T", "choices": x.Trace(), "desc": desc, "flags": fl.String(), "input": line, "output": out},
				func() bool { fl.Apply(); o, k, _ := redactLine(line); s, _ := c03Eval(root, o, k); return s != "" })
		}
	})
	c.Count("T_trees", st.Executions)
	if c.Shard == 0 {
		c.Sample(map[string]any{"group": "T", "desc": cur.desc, "line": cur.line})
	}
	Flags{}.Apply()
}

func init() {
	register(&PropDef{
		ID: "C03", Level: "exploration",
		Rule:        "namespace-bearing pipeline stages in 18 forms (string / document with its members in several orders) at nesting depth 0..3 with and without --redactNamespaces; G at <=1 non-default production (thorough <=2), all 6 gates (also lines the tool must not touch) and all containers, plus T = every vocabulary path x 53 value kinds x 5 tree shapes x 10 placements; flag sets over N,B,I,W,R,Y,Z (never --redactFieldNames); inputs with duplicate sibling keys are skipped; oracle = the output parses (own parser) as one object on one line whose tree has the same member names in the same order, the same array lengths and the same leaf types as the input tree. distinct = distinct input lines" + scaleRule + rootedRule,
		Assumptions: []string{"the independent JSON parser of the harness is the judge of well-formedness"},
		Run:         c03Run,
	})
}
