//go:build verif

package main

// Independent JSON reader of the harness (DESIGN.md 2.5): ordered members, duplicate detection,
// number literals kept as text, strings decoded, strict RFC 8259 grammar.  It deliberately does not
// use encoding/json or the repository's UnmarshalOrdered.

import (
	"errors"
	"fmt"
	"strings"
	"unicode/utf16"
	"unicode/utf8"
)

type JKind int

const (
	JNull JKind = iota
	JBool
	JNum
	JStr
	JArr
	JObj
)

func (k JKind) String() string {
	return [...]string{"null", "bool", "number", "string", "array", "object"}[k]
}

type JNode struct {
	Kind JKind
	Keys []string
	Kids []*JNode
	Str  string // decoded string
	Num  string // number literal as written
	Bool bool
}

type jparser struct {
	b   []byte
	i   int
	dup bool
	dep int
}

var errJTrailing = errors.New("trailing data after JSON value")

// ParseJSON parses exactly one JSON value surrounded by optional whitespace.
func ParseJSON(b []byte) (*JNode, error) {
	p := &jparser{b: b}
	p.ws()
	n, err := p.value()
	if err != nil {
		return nil, err
	}
	p.ws()
	if p.i != len(p.b) {
		return nil, errJTrailing
	}
	return n, nil
}

// HasDupKeys reports whether any object of the tree had duplicate sibling keys.
func ParseJSONDup(b []byte) (*JNode, bool, error) {
	p := &jparser{b: b}
	p.ws()
	n, err := p.value()
	if err != nil {
		return nil, false, err
	}
	p.ws()
	if p.i != len(p.b) {
		return nil, false, errJTrailing
	}
	return n, p.dup, nil
}

func (p *jparser) ws() {
	for p.i < len(p.b) {
		switch p.b[p.i] {
		case ' ', '\t', '\n', '\r':
			p.i++
		default:
			return
		}
	}
}

func (p *jparser) errf(f string, a ...any) error {
	return fmt.Errorf("json offset %d: %s", p.i, fmt.Sprintf(f, a...))
}

func (p *jparser) value() (*JNode, error) {
	if p.i >= len(p.b) {
		return nil, p.errf("unexpected end")
	}
	switch c := p.b[p.i]; {
	case c == '{':
		p.dep++
		defer func() { p.dep-- }()
		p.i++
		n := &JNode{Kind: JObj}
		p.ws()
		if p.i < len(p.b) && p.b[p.i] == '}' {
			p.i++
			return n, nil
		}
		seen := map[string]bool{}
		for {
			p.ws()
			if p.i >= len(p.b) || p.b[p.i] != '"' {
				return nil, p.errf("expected key")
			}
			k, err := p.str()
			if err != nil {
				return nil, err
			}
			if seen[k] {
				p.dup = true
			}
			seen[k] = true
			p.ws()
			if p.i >= len(p.b) || p.b[p.i] != ':' {
				return nil, p.errf("expected ':'")
			}
			p.i++
			p.ws()
			v, err := p.value()
			if err != nil {
				return nil, err
			}
			n.Keys = append(n.Keys, k)
			n.Kids = append(n.Kids, v)
			p.ws()
			if p.i >= len(p.b) {
				return nil, p.errf("unexpected end in object")
			}
			if p.b[p.i] == ',' {
				p.i++
				continue
			}
			if p.b[p.i] == '}' {
				p.i++
				return n, nil
			}
			return nil, p.errf("expected ',' or '}'")
		}
	case c == '[':
		p.i++
		n := &JNode{Kind: JArr}
		p.ws()
		if p.i < len(p.b) && p.b[p.i] == ']' {
			p.i++
			return n, nil
		}
		for {
			p.ws()
			v, err := p.value()
			if err != nil {
				return nil, err
			}
			n.Kids = append(n.Kids, v)
			p.ws()
			if p.i >= len(p.b) {
				return nil, p.errf("unexpected end in array")
			}
			if p.b[p.i] == ',' {
				p.i++
				continue
			}
			if p.b[p.i] == ']' {
				p.i++
				return n, nil
			}
			return nil, p.errf("expected ',' or ']'")
		}
	case c == '"':
		s, err := p.str()
		if err != nil {
			return nil, err
		}
		return &JNode{Kind: JStr, Str: s}, nil
	case c == 't':
		if strings.HasPrefix(string(p.b[p.i:min(len(p.b), p.i+4)]), "true") {
			p.i += 4
			return &JNode{Kind: JBool, Bool: true}, nil
		}
	case c == 'f':
		if strings.HasPrefix(string(p.b[p.i:min(len(p.b), p.i+5)]), "false") {
			p.i += 5
			return &JNode{Kind: JBool, Bool: false}, nil
		}
	case c == 'n':
		if strings.HasPrefix(string(p.b[p.i:min(len(p.b), p.i+4)]), "null") {
			p.i += 4
			return &JNode{Kind: JNull}, nil
		}
	case c == '-' || (c >= '0' && c <= '9'):
		return p.num()
	}
	return nil, p.errf("unexpected character %q", p.b[p.i])
}

func (p *jparser) num() (*JNode, error) {
	s := p.i
	if p.b[p.i] == '-' {
		p.i++
	}
	if p.i >= len(p.b) {
		return nil, p.errf("bad number")
	}
	if p.b[p.i] == '0' {
		p.i++
	} else if p.b[p.i] >= '1' && p.b[p.i] <= '9' {
		for p.i < len(p.b) && p.b[p.i] >= '0' && p.b[p.i] <= '9' {
			p.i++
		}
	} else {
		return nil, p.errf("bad number")
	}
	if p.i < len(p.b) && p.b[p.i] == '.' {
		p.i++
		d := p.i
		for p.i < len(p.b) && p.b[p.i] >= '0' && p.b[p.i] <= '9' {
			p.i++
		}
		if p.i == d {
			return nil, p.errf("bad fraction")
		}
	}
	if p.i < len(p.b) && (p.b[p.i] == 'e' || p.b[p.i] == 'E') {
		p.i++
		if p.i < len(p.b) && (p.b[p.i] == '+' || p.b[p.i] == '-') {
			p.i++
		}
		d := p.i
		for p.i < len(p.b) && p.b[p.i] >= '0' && p.b[p.i] <= '9' {
			p.i++
		}
		if p.i == d {
			return nil, p.errf("bad exponent")
		}
	}
	return &JNode{Kind: JNum, Num: string(p.b[s:p.i])}, nil
}

func (p *jparser) str() (string, error) {
	// p.b[p.i] == '"'
	p.i++
	var sb strings.Builder
	for {
		if p.i >= len(p.b) {
			return "", p.errf("unterminated string")
		}
		c := p.b[p.i]
		switch {
		case c == '"':
			p.i++
			return sb.String(), nil
		case c < 0x20:
			return "", p.errf("control character in string")
		case c == '\\':
			p.i++
			if p.i >= len(p.b) {
				return "", p.errf("unterminated escape")
			}
			e := p.b[p.i]
			p.i++
			switch e {
			case '"', '\\', '/':
				sb.WriteByte(e)
			case 'b':
				sb.WriteByte('\b')
			case 'f':
				sb.WriteByte('\f')
			case 'n':
				sb.WriteByte('\n')
			case 'r':
				sb.WriteByte('\r')
			case 't':
				sb.WriteByte('\t')
			case 'u':
				r, err := p.hex4()
				if err != nil {
					return "", err
				}
				if utf16.IsSurrogate(rune(r)) {
					if p.i+1 < len(p.b) && p.b[p.i] == '\\' && p.b[p.i+1] == 'u' {
						save := p.i
						p.i += 2
						r2, err := p.hex4()
						if err != nil {
							return "", err
						}
						dec := utf16.DecodeRune(rune(r), rune(r2))
						if dec == utf8.RuneError {
							p.i = save
							return "", p.errf("lone surrogate")
						}
						sb.WriteRune(dec)
					} else {
						return "", p.errf("lone surrogate")
					}
				} else {
					sb.WriteRune(rune(r))
				}
			default:
				return "", p.errf("bad escape \\%c", e)
			}
		case c < 0x80:
			sb.WriteByte(c)
			p.i++
		default:
			r, sz := utf8.DecodeRune(p.b[p.i:])
			if r == utf8.RuneError && sz <= 1 {
				return "", p.errf("invalid UTF-8")
			}
			sb.WriteString(string(p.b[p.i : p.i+sz]))
			p.i += sz
		}
	}
}

func (p *jparser) hex4() (uint16, error) {
	if p.i+4 > len(p.b) {
		return 0, p.errf("short \\u escape")
	}
	var v uint16
	for k := 0; k < 4; k++ {
		c := p.b[p.i+k]
		var d byte
		switch {
		case c >= '0' && c <= '9':
			d = c - '0'
		case c >= 'a' && c <= 'f':
			d = c - 'a' + 10
		case c >= 'A' && c <= 'F':
			d = c - 'A' + 10
		default:
			return 0, p.errf("bad hex digit")
		}
		v = v<<4 | uint16(d)
	}
	p.i += 4
	return v, nil
}

// ---------------------------------------------------------------------------------------------
// Labelled input trees (the generator side) and their serialisation.

type LKind int

const (
	LabInherit  LKind = iota // KEEP outside zones, DONTCARE inside (resolved by the case builder)
	LabKeep                  // must be emitted unchanged
	LabDontCare              // no oracle looks at it
	LabSecret                // client-supplied literal
	LabFieldRef              // "$name" string
	LabNS                    // namespace-bearing string
	LabIP                    // attr.remote
)

// secret classes
const (
	ClsStr   = "str"
	ClsEmail = "email"
	ClsDate  = "date"
	ClsOid   = "oid"
	ClsBin   = "bin"
	ClsNum   = "num"
	ClsBool  = "bool"
)

type Label struct {
	K      LKind
	Class  string // for LabSecret
	Canary string // substring whose presence in the output is a leak ("" = no absence test)
	NSKind string // for LabNS: "db", "coll", "dbcoll"
}

// key labels
const (
	KeyPlain = iota // structural key / operator / envelope key
	KeyFN           // user field name in a position C15 lists
	KeyFn           // user field name elsewhere (still a path name for C14)
)

type LNode struct {
	Kind   JKind
	Keys   []string
	KeyLab []int
	Kids   []*LNode
	Str    string
	Num    string
	Bool   bool
	Lab    Label
	Zone   bool // root of a redaction zone (labels below default to DONTCARE)
}

func LS(s string) *LNode             { return &LNode{Kind: JStr, Str: s} }
func LN(lit string) *LNode           { return &LNode{Kind: JNum, Num: lit} }
func LB(b bool) *LNode               { return &LNode{Kind: JBool, Bool: b} }
func LNul() *LNode                   { return &LNode{Kind: JNull} }
func LA(kids ...*LNode) *LNode       { return &LNode{Kind: JArr, Kids: kids} }
func (n *LNode) With(l Label) *LNode { n.Lab = l; return n }
func (n *LNode) Keep() *LNode        { n.Lab = Label{K: LabKeep}; return n }
func (n *LNode) DC() *LNode          { n.Lab = Label{K: LabDontCare}; return n }

// LO builds an object from alternating key, value arguments; a key is a string (plain) or an
// LKey (labelled).
type LKey struct {
	Name string
	Lab  int
}

func FN(name string) LKey { return LKey{name, KeyFN} }
func Fn(name string) LKey { return LKey{name, KeyFn} }

func LO(kv ...any) *LNode {
	n := &LNode{Kind: JObj}
	for i := 0; i+1 < len(kv); i += 2 {
		switch k := kv[i].(type) {
		case string:
			n.Keys = append(n.Keys, k)
			n.KeyLab = append(n.KeyLab, KeyPlain)
		case LKey:
			n.Keys = append(n.Keys, k.Name)
			n.KeyLab = append(n.KeyLab, k.Lab)
		default:
			panic("LO: bad key")
		}
		n.Kids = append(n.Kids, kv[i+1].(*LNode))
	}
	return n
}

func (n *LNode) Add(k any, v *LNode) *LNode {
	switch kk := k.(type) {
	case string:
		n.Keys = append(n.Keys, kk)
		n.KeyLab = append(n.KeyLab, KeyPlain)
	case LKey:
		n.Keys = append(n.Keys, kk.Name)
		n.KeyLab = append(n.KeyLab, kk.Lab)
	}
	n.Kids = append(n.Kids, v)
	return n
}

func (n *LNode) Get(k string) *LNode {
	for i, kk := range n.Keys {
		if kk == k {
			return n.Kids[i]
		}
	}
	return nil
}

// FromJ converts a parsed tree into an unlabelled LNode tree.
func FromJ(j *JNode) *LNode {
	n := &LNode{Kind: j.Kind, Str: j.Str, Num: j.Num, Bool: j.Bool}
	for i, k := range j.Kids {
		n.Kids = append(n.Kids, FromJ(k))
		if j.Kind == JObj {
			n.Keys = append(n.Keys, j.Keys[i])
			n.KeyLab = append(n.KeyLab, KeyPlain)
		}
	}
	return n
}

const hexd = "0123456789abcdef"

// jsonQuote writes s as a JSON string.  style 0: minimal escapes (only what RFC 8259 requires);
// style 1: also escapes '/', non-ASCII as \uXXXX (surrogate pairs for astral characters).
func jsonQuote(sb *strings.Builder, s string, style int) {
	sb.WriteByte('"')
	for _, r := range s {
		switch {
		case r == '"':
			sb.WriteString(`\"`)
		case r == '\\':
			sb.WriteString(`\\`)
		case r == '\n':
			sb.WriteString(`\n`)
		case r == '\r':
			sb.WriteString(`\r`)
		case r == '\t':
			sb.WriteString(`\t`)
		case r == '\b':
			sb.WriteString(`\b`)
		case r == '\f':
			sb.WriteString(`\f`)
		case r < 0x20:
			sb.WriteString(`\u00`)
			sb.WriteByte(hexd[r>>4])
			sb.WriteByte(hexd[r&15])
		case (style == 1 || style == 4) && r == '/':
			sb.WriteString(`\/`)
		case (style == 1 && r >= 0x80) || style == 2 || (style == 4 && (r >= 0x80 || r == 'A' || r == 'e' || r == 's' || r == '$')):
			// style 1: non-ASCII as \u escapes; style 2: EVERY character as a \u escape; style 4: upper-case hex digits
			f := `\u%04x`
			if style == 4 {
				f = `\u%04X`
			}
			if r >= 0x10000 {
				r1, r2 := utf16.EncodeRune(r)
				fmt.Fprintf(sb, f+f, r1, r2)
			} else {
				fmt.Fprintf(sb, f, r)
			}
		default:
			sb.WriteRune(r)
		}
	}
	sb.WriteByte('"')
}

func (n *LNode) write(sb *strings.Builder, style int) {
	switch n.Kind {
	case JNull:
		sb.WriteString("null")
	case JBool:
		if n.Bool {
			sb.WriteString("true")
		} else {
			sb.WriteString("false")
		}
	case JNum:
		sb.WriteString(n.Num)
	case JStr:
		jsonQuote(sb, n.Str, style)
	case JArr:
		sb.WriteByte('[')
		if style == 3 {
			sb.WriteString(" \t")
		}
		for i, k := range n.Kids {
			if i > 0 {
				sb.WriteByte(',')
				if style == 3 {
					sb.WriteString("  ")
				}
			}
			k.write(sb, style)
		}
		if style == 3 {
			sb.WriteByte(' ')
		}
		sb.WriteByte(']')
	case JObj:
		sb.WriteByte('{')
		if style == 3 {
			sb.WriteByte(' ')
		}
		for i, k := range n.Kids {
			if i > 0 {
				sb.WriteByte(',')
				if style == 3 {
					sb.WriteString(" \t ")
				}
			}
			jsonQuote(sb, n.Keys[i], style)
			if style == 3 {
				sb.WriteByte(' ')
			}
			sb.WriteByte(':')
			if style == 3 {
				sb.WriteString("  ")
			}
			k.write(sb, style)
		}
		if style == 3 {
			sb.WriteString(" \t")
		}
		sb.WriteByte('}')
	}
}

func (n *LNode) JSON() string {
	var sb strings.Builder
	n.write(&sb, 0)
	return sb.String()
}

func (n *LNode) JSONStyle(style int) string {
	var sb strings.Builder
	n.write(&sb, style)
	return sb.String()
}

// HasDup reports duplicate sibling keys anywhere in the tree.
func (n *LNode) HasDup() bool {
	if n.Kind == JObj {
		seen := map[string]bool{}
		for _, k := range n.Keys {
			if seen[k] {
				return true
			}
			seen[k] = true
		}
	}
	for _, k := range n.Kids {
		if k.HasDup() {
			return true
		}
	}
	return false
}

// Walk visits every node with its path (keys / [i]) in document order.
func (n *LNode) Walk(path []string, f func(path []string, n *LNode)) {
	f(path, n)
	for i, k := range n.Kids {
		var seg string
		if n.Kind == JObj {
			seg = n.Keys[i]
		} else {
			seg = "[]"
		}
		k.Walk(append(path, seg), f)
	}
}
