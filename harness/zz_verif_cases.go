//go:build verif

package main

// Slots, envelope, gates and containers of the grammar G (GRAMMAR.md sections 1 and 2).

import (
	"fmt"
	"strings"
)

type slotDef struct {
	name  string
	build func(g *Gen) *LNode // builds the command document
	write bool                // WRITE-style document (no verb)
}

var gates = []struct {
	c, msg  string
	inClaim bool
}{
	{"COMMAND", "Slow query", true},
	{"QUERY", "Aggregate command executor error", true},
	{"WRITE", "Slow query", true},
	{"NETWORK", "Slow query", true},
	{"NETWORK", "Connection accepted", false},
	{"STORAGE", "createCollection", false},
}

func (g *Gen) tail(cmd *LNode) *LNode {
	if !g.o.RichEnv {
		cmd.Add("maxTimeMS", LN("30000").Keep())
		cmd.Add("$db", g.ns("db", g.o.DB))
		return cmd
	}
	cmd.Add("lsid", LO("id", LO("$uuid", LS("0d6c2a1e-7a0c-4f5e-9c3b-0a1b2c3d4e5f"))).Keep())
	cmd.Add("$clusterTime", LO("clusterTime", LO("$timestamp", LO("t", LN("1714557600"), "i", LN("7"))), "signature", LO("hash", LO("$binary", LO("base64", LS("AAAAAAAAAAAAAAAAAAAAAAAAAAA="), "subType", LS("00"))), "keyId", LN("7469113720208097282"))).Keep())
	cmd.Add("$db", g.ns("db", g.o.DB))
	cmd.Add("$readPreference", LO("mode", LS("primaryPreferred")).Keep())
	return cmd
}

func (g *Gen) coll() *LNode { return g.ns("coll", g.o.Coll) }

// pipelineAround places the focus stage among sibling stages (free choice).
func (g *Gen) pipelineAround(focus func() *LNode) *LNode {
	switch g.x.Free(5, "pipeline arrangement") {
	case 0:
		return LA(focus())
	case 1:
		return LA(focus(), LO("$sort", LO(FN(g.fname()), LN("-1").DC())), LO("$limit", LN("5").Keep()))
	case 2:
		return LA(LO("$skip", LN("7").Keep()), focus())
	case 3:
		return LA(LO("$unwind", g.ref()), LO("$sample", LO("size", LN("3").Keep())), focus(), LO("$count", LS("total").DC()))
	default:
		return LA(LO("$lookup", LO("from", g.auxColl(), "localField", LS("a").DC(), "foreignField", LS("b").DC(), "as", LS("j").DC())), LO("$match", g.ctx(true, func() *LNode { return LO(g.FN(), g.sec()) })), focus())
	}
}

func (g *Gen) simpleUpdate() *LNode {
	return g.ctx(true, func() *LNode { return LO("$set", LO(g.FN(), g.sec())) })
}

func (g *Gen) listed(f func() *LNode) *LNode { return g.ctx(true, f) }

const nContainers = 6

var slots []slotDef

func init() {
	agg := func(name string, wrap func(g *Gen) *LNode) slotDef {
		return slotDef{name, func(g *Gen) *LNode {
			return g.tail(LO("aggregate", g.coll(), "pipeline", wrap(g), "cursor", LO("batchSize", LN("101")).Keep(), "allowDiskUse", LB(true).Keep()))
		}, false}
	}
	nestedIn := func(g *Gen, outer func(inner *LNode) *LNode) *LNode {
		inner := LA(g.ST(false))
		if g.x.Free(2, "nested arrangement") == 1 {
			inner = LA(LO("$match", g.listed(func() *LNode { return LO(g.FN(), g.sec()) })), inner.Kids[0], LO("$limit", LN("9").Keep()))
		}
		return LA(outer(inner))
	}
	slots = []slotDef{
		{"find.filter", func(g *Gen) *LNode {
			return g.tail(LO("find", g.coll(), "filter", g.listed(g.Q), "sort", LO(FN(g.fname()), LN("1").DC()), "limit", LN("25").Keep(), "singleBatch", LB(false).Keep()))
		}, false},
		{"find.sort", func(g *Gen) *LNode {
			return g.tail(LO("find", g.coll(), "filter", LO(), "sort", g.listed(func() *LNode { return LO(g.FN(), LN("-1").DC(), g.FN(), LN("1").DC()) }), "batchSize", LN("101").Keep()))
		}, false},
		{"count.query", func(g *Gen) *LNode {
			return g.tail(LO("count", g.coll(), "query", g.listed(g.Q), "maxTimeMS", LN("30000").Keep()))
		}, false},
		{"distinct.query", func(g *Gen) *LNode {
			return g.tail(LO("distinct", LS(g.o.Coll).DC(), "key", LS("status").DC(), "query", g.listed(g.Q)))
		}, false},
		agg("aggregate.pipeline", func(g *Gen) *LNode { return g.pipelineAround(func() *LNode { return g.ST(true) }) }),
		agg("aggregate.$facet", func(g *Gen) *LNode {
			return nestedIn(g, func(in *LNode) *LNode { return LO("$facet", LO("facetOne", in)) })
		}),
		agg("aggregate.$lookup.pipeline", func(g *Gen) *LNode {
			return nestedIn(g, func(in *LNode) *LNode {
				return LO("$lookup", LO("from", g.auxColl(), "let", LO(), "pipeline", in, "as", LS("joined").DC()))
			})
		}),
		agg("aggregate.$unionWith.pipeline", func(g *Gen) *LNode {
			return nestedIn(g, func(in *LNode) *LNode { return LO("$unionWith", LO("coll", g.auxColl(), "pipeline", in)) })
		}),
		agg("aggregate.$rankFusion.pipelines", func(g *Gen) *LNode {
			return nestedIn(g, func(in *LNode) *LNode { return LO("$rankFusion", LO("input", LO("pipelines", LO("pOne", in)))) })
		}),
		agg("aggregate.$facet.$lookup", func(g *Gen) *LNode {
			return nestedIn(g, func(in *LNode) *LNode {
				return LO("$facet", LO("facetOne", LA(LO("$lookup", LO("from", g.auxColl(), "pipeline", in, "as", LS("j").DC())))))
			})
		}),
		agg("aggregate.$lookup.$facet", func(g *Gen) *LNode {
			return nestedIn(g, func(in *LNode) *LNode {
				return LO("$lookup", LO("from", g.auxColl(), "pipeline", LA(LO("$facet", LO("facetOne", in))), "as", LS("j").DC()))
			})
		}),
		{"findAndModify.query", func(g *Gen) *LNode {
			return g.tail(LO("findAndModify", g.coll(), "query", g.listed(g.Q), "update", g.simpleUpdate(), "new", LB(true).DC()))
		}, false},
		{"findAndModify.update", func(g *Gen) *LNode {
			return g.tail(LO("findAndModify", g.coll(), "query", LO(), "update", g.listed(g.U), "upsert", LB(false).DC()))
		}, false},
		{"findAndModify.arrayFilters", func(g *Gen) *LNode {
			return g.tail(LO("findAndModify", g.coll(), "query", LO(), "update", g.simpleUpdate(), "arrayFilters", LA(g.listed(g.Q))))
		}, false},
		{"update.updates.q", func(g *Gen) *LNode {
			el := func() *LNode {
				return LO("q", g.listed(g.Q), "u", g.simpleUpdate(), "multi", LB(false).DC(), "upsert", LB(false).DC())
			}
			other := func() *LNode {
				return LO("q", g.listed(func() *LNode { return LO(g.FN(), g.sec()) }), "u", g.simpleUpdate())
			}
			switch g.x.Free(3, "updates arrangement") {
			case 0:
				return g.tail(LO("update", g.coll(), "updates", LA(el()), "ordered", LB(true).Keep()))
			case 1:
				return g.tail(LO("update", g.coll(), "updates", LA(el(), other()), "ordered", LB(true).Keep()))
			default:
				return g.tail(LO("update", g.coll(), "updates", LA(other(), el()), "ordered", LB(true).Keep()))
			}
		}, false},
		{"update.updates.u", func(g *Gen) *LNode {
			return g.tail(LO("update", g.coll(), "updates", LA(LO("q", LO(), "u", g.listed(g.U), "multi", LB(true).DC())), "ordered", LB(true).Keep()))
		}, false},
		{"update.updates.arrayFilters", func(g *Gen) *LNode {
			return g.tail(LO("update", g.coll(), "updates", LA(LO("q", LO(), "u", g.simpleUpdate(), "arrayFilters", LA(g.listed(g.Q))))))
		}, false},
		{"update.updates.c", func(g *Gen) *LNode {
			return g.tail(LO("update", g.coll(), "updates", LA(LO("q", LO(), "u", LA(LO("$set", LO(Fn("x"), LS("$$v1").DC()))), "c", LO("v1", g.V())))))
		}, false},
		{"delete.deletes.q", func(g *Gen) *LNode {
			el := func() *LNode { return LO("q", g.listed(g.Q), "limit", LN("1").DC()) }
			if g.x.Free(2, "deletes arrangement") == 0 {
				return g.tail(LO("delete", g.coll(), "deletes", LA(el()), "ordered", LB(true).Keep()))
			}
			return g.tail(LO("delete", g.coll(), "deletes", LA(LO("q", g.listed(func() *LNode { return LO(g.FN(), g.sec()) }), "limit", LN("0").DC()), el()), "ordered", LB(true).Keep()))
		}, false},
		{"insert.documents", func(g *Gen) *LNode {
			if g.x.Free(2, "documents arrangement") == 0 {
				return g.tail(LO("insert", g.coll(), "documents", LA(g.listed(g.D)), "ordered", LB(true).Keep()))
			}
			return g.tail(LO("insert", g.coll(), "documents", LA(g.listed(func() *LNode { return LO(FN("_id"), g.sec(), g.FN(), g.sec()) }), g.listed(g.D)), "ordered", LB(true).Keep()))
		}, false},
		{"write.q", func(g *Gen) *LNode {
			return LO("q", g.listed(g.Q), "u", g.simpleUpdate(), "multi", LB(false).DC(), "upsert", LB(false).DC())
		}, true},
		{"write.u", func(g *Gen) *LNode {
			return LO("q", LO(), "u", g.listed(g.U), "multi", LB(false).DC(), "upsert", LB(true).DC())
		}, true},
		{"write.remove.q", func(g *Gen) *LNode { return LO("q", g.listed(g.Q), "limit", LN("0").DC()) }, true},
		{"findOneAndUpdate.filter", func(g *Gen) *LNode {
			verbs := []string{"findOneAndUpdate", "findOneAndReplace", "findOneAndDelete", "countDocuments", "replace"}
			v := verbs[g.x.Free(len(verbs), "alias verb")]
			return g.tail(LO(v, g.coll(), "filter", g.listed(g.Q)))
		}, false},
		{"findOneAndUpdate.update", func(g *Gen) *LNode {
			return g.tail(LO("findOneAndUpdate", g.coll(), "filter", LO(), "update", g.listed(g.U)))
		}, false},
	}
}

// metrics outside the zones: number notations that must survive literally
func envMetrics(attr *LNode, rich bool) {
	attr.Add("planSummary", LS("COLLSCAN"))
	attr.Add("keysExamined", LN("540"))
	attr.Add("docsExamined", LN("7469113720208097282"))
	attr.Add("ratio", LN("1.50e+3"))
	attr.Add("cursorExhausted", LB(true))
	attr.Add("nothing", LNul())
	if rich {
		attr.Add("cpuNanos", LN("18446744073709551616"))
		attr.Add("ratio2", LN("1E+3"))
		attr.Add("negZero", LN("-0"))
		attr.Add("precise", LN("0.1000000000000000055511151231257827"))
		attr.Add("huge", LN("1e400"))
		attr.Add("emptyObj", LO())
		attr.Add("emptyArr", LA())
		attr.Add("locks", LO("Global", LO("acquireCount", LO("r", LN("2"))), "FeatureCompatibilityVersion", LO("acquireCount", LO("r", LN("1.0")))))
		attr.Add("arr", LA(LN("1"), LN("2.50"), LA(LN("3"), LA(LN("4E0")))))
		attr.Add("storage", LO("data", LO("bytesRead", LN("123456789012345678901234567890"), "timeReadingMicros", LN("12"))))
		attr.Add("nested", LA(LA(LO("k", LS("v"))), LA(), LA(LA())))
		attr.Add("escapes", LS("tab\t quote\" backslash\\ slash/ nl\n uni\u00e9\u65e5 <&> \u2028 \U0001F600 ctl\u0001"))
		attr.Add("k\"ey \\ \u00e9", LS(""))
		attr.Add("tab\tkey\u0001", LS("ctl"))
		attr.Add("nl\nkey", LO("in\rner", LN("1")))
	}
	attr.Add("protocol", LS("op_msg"))
	attr.Add("durationMillis", LN("12"))
}

// buildCase assembles the full line around a command document.
func (g *Gen) buildCase(slot int, cmd *LNode, gate, container int) *Case {
	sd := slots[slot]
	gt := gates[gate]
	c := &Case{Gate: gate, Container: container, Slot: slot, SlotName: sd.name, InClaim: gt.inClaim, DB: g.o.DB, Coll: g.o.Coll}
	attr := LO("type", LS("command"))
	hasNS := true
	nsNode := g.ns("dbcoll", g.o.DB+"."+g.o.Coll)
	cmd.Zone = true
	switch container {
	case 0:
		attr.Add("ns", nsNode)
		attr.Add("appName", LS("myApp 1.0"))
		attr.Add("command", cmd)
	case 1:
		attr.Add("ns", nsNode)
		attr.Add("appName", LS("myApp 1.0"))
		gm := LO("getMore", LN("7469113720208097282").Keep(), "collection", g.ns("coll", g.o.Coll), "batchSize", LN("101").Keep(), "$db", g.ns("db", g.o.DB))
		gm.Zone = true
		attr.Add("command", gm)
		attr.Add("originatingCommand", cmd)
	case 2:
		attr.Add("ns", nsNode)
		attr.Add("error", LS("Location12345: something failed"))
		attr.Add("stats", LO("stage", LS("COLLSCAN"), "nReturned", LN("0")))
		attr.Add("cmd", cmd)
	case 3:
		hasNS = false
		g.nsNodes = g.nsNodes[:len(g.nsNodes)-1]
		attr.Add("error", LS("Location12345: something failed"))
		attr.Add("cmd", cmd)
	case 4:
		// an error report that carries the command AND its copy: the focus sits in the copy
		attr.Add("ns", nsNode)
		other := g.tail(LO("find", g.coll(), "filter", g.ctx(true, func() *LNode { return LO(g.FN(), g.sec()) })))
		other.Zone = true
		propagateLabels(other)
		attr.Add("command", other)
		attr.Add("error", LS("Location12345: something failed"))
		attr.Add("cmd", cmd)
	case 5:
		// all three at once: the focus sits in the command, the other two hold literals of their own
		attr.Add("ns", nsNode)
		oc := g.tail(LO("aggregate", g.coll(), "pipeline", LA(LO("$match", g.ctx(true, func() *LNode { return LO(g.FN(), g.sec()) })))))
		oc.Zone = true
		propagateLabels(oc)
		cp := g.tail(LO("count", g.coll(), "query", g.ctx(true, func() *LNode { return LO(g.FN(), g.sec()) })))
		cp.Zone = true
		propagateLabels(cp)
		attr.Add("originatingCommand", oc)
		attr.Add("cmd", cp)
		attr.Add("command", cmd)
	}
	c.HasNS = hasNS
	envMetrics(attr, g.o.RichEnv)
	if g.o.PlanSummary != "" {
		attr.Get("planSummary").Str = g.o.PlanSummary
	}
	g.nsec++
	ip := fmt.Sprintf("203.0.113.%d:5%04d", 1+g.nsec%250, g.nsec%10000)
	// the forms a client address takes: IPv4 with port (most lines), bracketed IPv6 with port, IPv4-mapped IPv6, a
	// link-local address with a zone, bare addresses without a port
	switch g.nsec % 11 {
	case 3:
		ip = fmt.Sprintf("[2001:db8:%x::%x]:5%04d", 1+g.nsec%250, 7+g.nsec%9000, g.nsec%10000)
	case 5:
		ip = fmt.Sprintf("[::ffff:203.0.113.%d]:5%04d", 1+g.nsec%250, g.nsec%10000)
	case 7:
		ip = fmt.Sprintf("[fe80::%x:1%%eth0]:27017", 0x100+g.nsec%60000)
	case 8:
		ip = fmt.Sprintf("198.51.%d.%d", 100+g.nsec%150, 1+g.nsec%250)
	case 9:
		ip = fmt.Sprintf("2001:db8::%x:%x", 0x100+g.nsec%60000, 1+g.nsec%250)
	}
	attr.Add("remote", LS(ip).With(Label{K: LabIP, Canary: ip}))
	g.caseNo++
	root := LO("t", LO("$date", LS("2024-05-01T10:00:00.123+00:00")), "s", LS("I"), "c", LS(gt.c), "id", LN("51803"), "ctx", LS("conn42"), "msg", LS(gt.msg), "attr", attr)
	c.Root, c.Attr, c.Cmd = root, attr, cmd
	c.Secrets, c.NSNodes, c.Prods, c.Focus, c.Pattern = g.secrets, g.nsNodes, g.prods, g.focus, g.pattern
	resolveLabels(root, false, !gt.inClaim)
	return c
}

// resolveLabels turns LabInherit into KEEP (outside zones) or DONTCARE (inside zones); on lines
// outside the gate everything except namespaces and the remote address is KEEP.
func resolveLabels(n *LNode, inZone bool, allKeep bool) {
	if n.Zone {
		inZone = true
	}
	if allKeep {
		if n.Lab.K != LabNS && n.Lab.K != LabIP {
			n.Lab = Label{K: LabKeep}
		}
	} else if n.Lab.K == LabInherit {
		if inZone {
			n.Lab.K = LabDontCare
		} else {
			n.Lab.K = LabKeep
		}
	}
	for _, k := range n.Kids {
		resolveLabels(k, inZone, allKeep)
	}
}

// propagate explicit KEEP / DONTCARE labels of inner nodes to their subtrees (before resolveLabels).
func propagateLabels(n *LNode) {
	if (n.Lab.K == LabKeep || n.Lab.K == LabDontCare) && (n.Kind == JObj || n.Kind == JArr) {
		var rec func(m *LNode)
		rec = func(m *LNode) {
			for _, k := range m.Kids {
				if k.Lab.K == LabInherit {
					k.Lab.K = n.Lab.K
				}
				rec(k)
			}
		}
		rec(n)
	}
	for _, k := range n.Kids {
		propagateLabels(k)
	}
}

// genCase is the explorer body's generator: one line per execution.
func genCase(x *X, o GenOpts) *Case {
	g := &Gen{x: x, o: o}
	if g.o.DB == "" {
		g.o.DB = "dbZq1"
	}
	if g.o.Coll == "" {
		g.o.Coll = "coQx7"
	}
	if o.NamePatterns {
		g.pattern = x.Free(len(namePatterns), "which field names match")
	}
	var slot int
	if o.Slots != nil {
		slot = o.Slots[x.Free(len(o.Slots), "slot")]
	} else {
		slot = x.Free(len(slots), "slot")
	}
	sd := slots[slot]
	cmd := sd.build(g)
	propagateLabels(cmd)
	gate, container := 0, 0
	if !o.OneGate {
		ng := 4
		if o.AllGates {
			ng = len(gates)
		}
		gate = x.Free(ng, "gate")
		container = x.Free(nContainers, "container")
	}
	if sd.write && container != 0 {
		// WRITE-style documents only occur as the command of a WRITE line
		x.Skip()
	}
	return g.buildCase(slot, cmd, gate, container)
}

// sigPath renders the path of a node below the command root for signatures: planted names -> <f>,
// array indices -> [].
func sigPath(root *LNode, target *LNode) string {
	var res string
	var rec func(n *LNode, path []string) bool
	rec = func(n *LNode, path []string) bool {
		if n == target {
			res = strings.Join(path, ".")
			return true
		}
		for i, k := range n.Kids {
			seg := "[]"
			if n.Kind == JObj {
				seg = n.Keys[i]
				if n.KeyLab[i] != KeyPlain {
					seg = "<f>"
				}
			}
			if rec(k, append(path, seg)) {
				return true
			}
		}
		return false
	}
	rec(root, nil)
	res = strings.ReplaceAll(res, ".[]", "[]")
	return res
}
