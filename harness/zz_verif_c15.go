//go:build verif

package main

// C15 — field-name redaction renames consistently, completely, and only in the chosen namespaces.

import (
	"fmt"
	"regexp"
	"strings"
)

type c15NameSet struct {
	tag   string
	names []string
}

var c15NameSets = []c15NameSet{
	{"distinctive", []string{"nmQa", "nmQb", "nmQc", "nmQd", "nmQe", "nmQf", "nmQg", "nmQh"}},
	{"substrings-of-each-other-and-of-IXSCAN", []string{"a", "ab", "b", "E", "IX", "SCAN", "RED", "abc"}},
	{"hex-and-digit-leading", []string{"0af3", "7e1", "deadbeef", "c1bb", "00", "9", "e2e", "f00d"}},
	{"long-and-odd", []string{"customerAccountNumber", "customer", "Account", "x_y", "ünï", "with space", "q\"uote", "UPPER"}},
}

type c15PlanForm struct {
	name string
	mk   func(n []string) (in string, keys [][2]int) // keys: byte ranges of index-key names in `in`
}

// plan summaries built from the first names of the pool (the ones the filter uses first)
func c15Plans(n []string) []struct{ name, in, want string } {
	h := func(s string) string { return HashName(s) }
	return []struct{ name, in, want string }{
		{"COLLSCAN", "COLLSCAN", "COLLSCAN"},
		{"IDHACK", "IDHACK", "IDHACK"},
		{"IXSCAN-single", "IXSCAN { " + n[0] + ": 1 }", "IXSCAN { " + h(n[0]) + ": 1 }"},
		{"IXSCAN-compound", "IXSCAN { " + n[0] + ": 1, " + n[1] + ": -1 }", "IXSCAN { " + h(n[0]) + ": 1, " + h(n[1]) + ": -1 }"},
		{"IXSCAN-dotted", "IXSCAN { " + n[0] + "." + n[1] + ": 1 }", "IXSCAN { " + h(n[0]+"."+n[1]) + ": 1 }"},
		{"IXSCAN-several", "IXSCAN { " + n[0] + ": 1 }, IXSCAN { " + n[1] + ": 1, " + n[2] + ": 1 }", "IXSCAN { " + h(n[0]) + ": 1 }, IXSCAN { " + h(n[1]) + ": 1, " + h(n[2]) + ": 1 }"},
		{"IXSCAN-same-name-twice", "IXSCAN { " + n[0] + ": 1 }, IXSCAN { " + n[0] + ": -1, " + n[3] + ": 1 }", "IXSCAN { " + h(n[0]) + ": 1 }, IXSCAN { " + h(n[0]) + ": -1, " + h(n[3]) + ": 1 }"},
	}
}

var identRe = regexp.MustCompile(`[^\s{}:,]+`)

type c15Finding struct {
	oracle, loc, detail string
}

// c15Eval: on = output with the flag, off = output without it.
func c15Eval(sc *sweepCase, names []string, applies bool, planIn, planWant, on, off string) []c15Finding {
	var fs []c15Finding
	if !applies {
		if on != off {
			fs = append(fs, c15Finding{"foreign-namespace-changed", "line", "the line belongs to another namespace but differs from the output without the flag"})
		}
		return fs
	}
	jo, e1 := ParseJSON([]byte(on))
	jf, e2 := ParseJSON([]byte(off))
	if e1 != nil || e2 != nil {
		return nil
	}
	listed := map[string]bool{}
	for _, n := range names {
		listed[n] = true
	}
	tokenLeak := func(s string) string {
		for _, comp := range strings.Split(strings.TrimLeft(s, "$"), ".") {
			if listed[comp] {
				return comp
			}
		}
		return ""
	}
	// walk input / on / off in parallel below the command document
	var walk func(in *LNode, a, b *JNode, path []string)
	walk = func(in *LNode, a, b *JNode, path []string) {
		if a.Kind != b.Kind || len(a.Kids) != len(b.Kids) || in.Kind != a.Kind || len(in.Kids) != len(a.Kids) {
			if in.Kind == JObj || in.Kind == JArr || a.Kind == JObj || a.Kind == JArr {
				fs = append(fs, c15Finding{"shape-changed", strings.Join(path, "."), "member count / kind differs from the output without the flag"})
			} else if in.Lab.K != LabFieldRef && !(in.Kind == JStr && strings.HasPrefix(in.Str, "$")) {
				fs = append(fs, c15Finding{"value-differs", strings.Join(path, "."), "a value has another type than without the flag"})
			}
			return
		}
		switch in.Kind {
		case JObj:
			for i := range in.Kids {
				k := in.Keys[i]
				seg := sigSeg(in, i)
				switch in.KeyLab[i] {
				case KeyFN:
					if want := HashName(k); a.Keys[i] != want {
						d := fmt.Sprintf("key %q is emitted as %q, its pseudonym elsewhere is %q", k, a.Keys[i], want)
						o := "key-not-renamed"
						if a.Keys[i] != k {
							o = "key-pseudonym-inconsistent"
						}
						loc := strings.Join(append(path, seg), ".")
						if !listed[k] && !strings.Contains(k, ".") && !strings.Contains(k, "$") && k != "_id" {
							loc = path0(path) + ".….word=" + k // a user field whose name is also a word of the operator vocabulary
						}
						fs = append(fs, c15Finding{o, loc, d})
					}
				case KeyPlain:
					// operators / structural keys: the property does not say what happens to them under this flag
				default: // KeyFn: not listed by the property, either form is accepted
					if a.Keys[i] != k && a.Keys[i] != HashName(k) {
						fs = append(fs, c15Finding{"key-pseudonym-inconsistent", strings.Join(append(path, seg), "."), fmt.Sprintf("key %q is emitted as %q", k, a.Keys[i])})
					}
				}
				walk(in.Kids[i], a.Kids[i], b.Kids[i], append(path, seg))
			}
		case JArr:
			for i := range in.Kids {
				walk(in.Kids[i], a.Kids[i], b.Kids[i], append(path, "[]"))
			}
		case JStr:
			if in.Lab.K == LabFieldRef {
				if strings.HasPrefix(in.Str, "$$") {
					return
				}
				if want := HashName(in.Str); a.Str != want {
					o := "ref-not-renamed"
					if a.Str != in.Str {
						o = "ref-pseudonym-inconsistent"
					}
					fs = append(fs, c15Finding{o, strings.Join(path, "."), fmt.Sprintf("the reference %q is emitted as %q, the pseudonym of that name is %q", in.Str, a.Str, want)})
				}
				return
			}
			if strings.HasPrefix(in.Str, "$") {
				return // other '$' strings ($$ROOT, $$DESCEND …): don't care
			}
			if (in.Lab.K == LabSecret || in.Lab.K == LabKeep) && a.Str != b.Str {
				fs = append(fs, c15Finding{"value-differs", strings.Join(path, "."), fmt.Sprintf("a value is redacted differently than without the flag: %q vs %q", trunc(a.Str, 40), trunc(b.Str, 40))})
			}
		case JNum:
			if in.Lab.K != LabSecret && in.Lab.K != LabKeep {
				return
			}
			if a.Num != b.Num {
				fs = append(fs, c15Finding{"value-differs", strings.Join(path, "."), "a number differs from the output without the flag"})
			}
		case JBool:
			if (in.Lab.K == LabSecret || in.Lab.K == LabKeep) && a.Bool != b.Bool {
				fs = append(fs, c15Finding{"value-differs", strings.Join(path, "."), "a boolean differs from the output without the flag"})
			}
		}
	}
	cmdPath := sc.Path(sc.C.Cmd)
	ca, cb := follow(jo, cmdPath), follow(jf, cmdPath)
	if ca != nil && cb != nil {
		walk(sc.C.Cmd, ca, cb, nil)
	}
	// plan summary
	attrOn := follow(jo, sc.Path(sc.C.Attr))
	if attrOn != nil {
		for i, k := range attrOn.Keys {
			if k == "planSummary" && attrOn.Kids[i].Kind == JStr && attrOn.Kids[i].Str != planWant {
				fs = append(fs, c15Finding{"plan-summary", "attr.planSummary", fmt.Sprintf("plan summary %q is emitted as %q; with every index key replaced by its pseudonym it reads %q", planIn, attrOn.Kids[i].Str, planWant)})
			}
		}
	}
	// absence, token level: keys, '$' strings, plan-summary identifiers; long names as substrings
	var scan func(j *JNode, path []string)
	scan = func(j *JNode, path []string) {
		switch j.Kind {
		case JObj:
			for i, k := range j.Keys {
				if t := tokenLeak(k); t != "" && !(len(path) < 2) {
					fs = append(fs, c15Finding{"name-remains", "key", fmt.Sprintf("the planted name %q remains as (part of) the key %q at %s", t, k, strings.Join(path, "."))})
				}
				scan(j.Kids[i], append(path, k))
			}
		case JArr:
			for _, k := range j.Kids {
				scan(k, append(path, "[]"))
			}
		case JStr:
			if strings.HasPrefix(j.Str, "$") && !strings.HasPrefix(j.Str, "$$") {
				if t := tokenLeak(j.Str); t != "" {
					fs = append(fs, c15Finding{"name-remains", "ref", fmt.Sprintf("the planted name %q remains in the reference %q at %s", t, j.Str, strings.Join(path, "."))})
				}
			}
			if len(path) == 2 && path[1] == "planSummary" {
				for _, tok := range identRe.FindAllString(j.Str, -1) {
					if t := tokenLeak(tok); t != "" && tok != "IXSCAN" {
						fs = append(fs, c15Finding{"name-remains", "planSummary", fmt.Sprintf("the planted name %q remains in the plan summary %q", t, j.Str)})
					}
				}
			}
		}
	}
	scan(jo, nil)
	for _, n := range names {
		if len(n) >= 8 && strings.Contains(on, jsonInner(n)) {
			fs = append(fs, c15Finding{"name-remains", "substring", fmt.Sprintf("the planted name %q remains somewhere in the line", n)})
		}
	}
	return fs
}

func path0(p []string) string {
	if len(p) == 0 {
		return ""
	}
	return p[0]
}

func c15Run(c *Ctx) {
	lineNS := "dbZq1.coQx7"
	type nsRel struct {
		tag, prefix string
		applies     bool
	}
	rels := []nsRel{{"equal", "dbZq1.coQx7", true}, {"proper-prefix-db", "dbZq1", true}, {"proper-prefix-partial", "dbZq1.co", true}, {"different", "otherDb.coQx7", false}, {"longer", "dbZq1.coQx7extra", false}}
	for si, set := range c15NameSets {
		plansFor := func() []struct{ name, in, want string } { Flags{}.Apply(); return c15Plans(set.names) }
		nplans := len(plansFor())
		for pi := 0; pi < nplans; pi++ {
			if pi > 3 && si > 0 && !c.Thorough() && pi != 5 {
				continue
			}
			o := GenOpts{FieldNames: set.names, LeafSet: 2, PlanSummary: plansFor()[pi].in}
			layers := []sweepLayer{{"L0", o, 0, nil}}
			if pi == 3 {
				o1 := o
				o1.OneGate = true
				layers = append(layers, sweepLayer{"L1", o1, 1, nil})
			}
			sweep(c, layers, func(sc *sweepCase) bool {
				if !sc.C.InClaim || sc.C.Root.HasDup() {
					return false
				}
				c.Distinct(sc.Line)
				for ri, rel := range rels {
					if ri > 1 && (sc.Layer != "L0" || pi != 3) {
						continue
					}
					for _, base := range []Flags{{}, {N: true, B: true, R: "x"}} {
						if base.N && (sc.Layer != "L0" || ri > 0) {
							continue
						}
						fl := base
						fl.F = []string{rel.prefix}
						off := base
						off.Apply()
						outOff, ok2, pv2 := redactLine(sc.Line)
						fl.Apply()
						outOn, ok1, pv1 := redactLine(sc.Line)
						c.Eval(2)
						if pv1 != nil || pv2 != nil || !ok1 || !ok2 {
							c.Count("skipped_panics_or_rejected", 1)
							continue
						}
						applies := rel.applies && sc.C.HasNS
						plan := c15Plans(set.names)[pi] // under the active replacement text
						fs := c15Eval(sc, set.names, applies, plan.in, plan.want, outOn, outOff)
						if len(fs) == 0 {
							c.Outcome("renamed-as-specified")
							continue
						}
						c.Outcome("finding")
						seen := map[string]bool{}
						for _, f := range fs {
							loc := f.loc
							if f.oracle != "name-remains" && f.oracle != "plan-summary" && f.oracle != "foreign-namespace-changed" && !strings.Contains(loc, "word=") {
								loc = c14Loc(strings.ReplaceAll(loc, ".[]", "[]"))
							}
							sig := "fieldnames:" + f.oracle + ":" + loc
							if f.oracle == "plan-summary" {
								sig += ":" + plan.name + ":" + set.tag
							}
							if seen[sig] {
								continue
							}
							seen[sig] = true
							line, oracle := sc.Line, f.oracle
							c.Violate(sig, fmt.Sprintf("%s: %s; slot %s; names %s; prefix %s (%s); flags [%s]; input: %s | output: %s", f.oracle, f.detail, sc.C.SlotName, set.tag, rel.prefix, rel.tag, fl, trunc(line, 500), trunc(outOn, 500)),
								int64(len(line)), replayOf(sc, fl, map[string]any{"output": outOn, "output_without_flag": outOff, "names": set.tag, "plan": plan.name}),
								func() bool {
									off.Apply()
									b, _, _ := redactLine(line)
									fl.Apply()
									a, _, _ := redactLine(line)
									p2 := c15Plans(set.names)[pi]
									for _, g := range c15Eval(sc, set.names, applies, p2.in, p2.want, a, b) {
										if g.oracle == oracle {
											return true
										}
									}
									return false
								})
						}
					}
				}
				if c.P.Evaluations < 100 {
					c.Sample(map[string]any{"slot": sc.C.SlotName, "names": set.tag, "line": trunc(sc.Line, 800)})
				}
				return false
			}, nil)
		}
	}
	_ = lineNS
	Flags{}.Apply()
}

func init() {
	register(&PropDef{
		ID: "C15", Level: "exploration",
		Rule:        "G at 0 deviations (all slots x 4 gates x 6 containers; <=1 non-default production for the distinctive name set) with user field names planted from 4 adversarial pools (distinctive; one-letter names and names that are substrings of each other, of 'IXSCAN' and of 'REDACTED'; hex-looking and digit-leading; long / non-ASCII / with space / with quote) in the positions the property lists (keys of filter / query / update / inserted documents / sort, $match and $sort stages; '$field' references) - positions it does not list ($group / $project / $addFields keys, search paths) draw from a separate pool - x 7 plan summaries (COLLSCAN, IDHACK, IXSCAN single / compound / dotted / several / same name twice) built from the same names x configured prefix vs line namespace {equal, database only, partial, different database, longer than the namespace} x {plain, N+B+replacement}. Oracles, against the output without the flag walked in parallel: listed keys and references hold the component-wise pseudonym of their name (same everywhere), operators and structural keys are unchanged, member count and order kept, every other value identical to the run without the flag, the plan summary equals the input with each index key replaced by its pseudonym, no planted name remains as a key component, reference component or plan-summary token (names of 8+ characters: anywhere), and lines of other namespaces are byte-identical to the run without the flag. distinct = distinct input lines",
		Assumptions: []string{"the pseudonym function is C13's subject; its value is taken from the tool", "$$ variables and positions the property does not list are don't-care"},
		Run:         c15Run,
	})
}
