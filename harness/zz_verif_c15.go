//go:build verif

package main

// C15 — field-name redaction renames consistently, completely, and only in the chosen namespaces.

import (
	"fmt"
	"os"
	"path/filepath"
	"regexp"
	"strings"
)

type c15NameSet struct {
	tag   string
	names []string
}

var c15NameSets = []c15NameSet{
	{"distinctive", []string{"nmQa", "nmQb", "nmQc", "nmQd", "nmQe", "nmQf", "nmQg", "nmQh"}},
	{"substrings-of-each-other-and-of-IXSCAN", []string{"a", "ab", "b", "E", "IX", "SCAN", "RED", "abc"}},
	{"hex-and-digit-leading", []string{"0af3", "7e1", "deadbeef", "c1bb", "00", "9", "e2e", "f00d"}},
	{"long-and-odd", []string{"customerAccountNumber", "customer", "Account", "x_y", "ünï", "with space", "q\"uote", "UPPER"}},
	// names shaped like the tool's own output: 16 hex digits, the same behind '_' and behind the default / a custom
	// replacement text (what an earlier pass over the log would have left as field names)
	{"shaped-like-pseudonyms", []string{"deadbeefdeadbeef", "id_00ff00ff00ff00ff", "REDACTED_0123456789abcdef", "x_0123456789abcdef", "0123456789abcdef", "_00000000000000ff", "REDACTED_fedcba9876543210x", "a_b_0123456789abcdef"}},
}

type c15PlanForm struct {
	name string
	mk   func(n []string) (in string, keys [][2]int) // keys: byte ranges of index-key names in `in`
}

// plan summaries built from the first names of the pool (the ones the filter uses first)
func c15Plans(n []string) []struct{ name, in, want string } {
	h := func(s string) string { return HashName(s) }
	return []struct{ name, in, want string }{
		{"COLLSCAN", "COLLSCAN", "COLLSCAN"},
		{"IDHACK", "IDHACK", "IDHACK"},
		{"IXSCAN-single", "IXSCAN { " + n[0] + ": 1 }", "IXSCAN { " + h(n[0]) + ": 1 }"},
		{"IXSCAN-compound", "IXSCAN { " + n[0] + ": 1, " + n[1] + ": -1 }", "IXSCAN { " + h(n[0]) + ": 1, " + h(n[1]) + ": -1 }"},
		{"IXSCAN-dotted", "IXSCAN { " + n[0] + "." + n[1] + ": 1 }", "IXSCAN { " + h(n[0]+"."+n[1]) + ": 1 }"},
		{"IXSCAN-several", "IXSCAN { " + n[0] + ": 1 }, IXSCAN { " + n[1] + ": 1, " + n[2] + ": 1 }", "IXSCAN { " + h(n[0]) + ": 1 }, IXSCAN { " + h(n[1]) + ": 1, " + h(n[2]) + ": 1 }"},
		{"IXSCAN-same-name-twice", "IXSCAN { " + n[0] + ": 1 }, IXSCAN { " + n[0] + ": -1, " + n[3] + ": 1 }", "IXSCAN { " + h(n[0]) + ": 1 }, IXSCAN { " + h(n[0]) + ": -1, " + h(n[3]) + ": 1 }"},
	}
}

var identRe = regexp.MustCompile(`[^\s{}:,]+`)

type c15Finding struct {
	oracle, loc, detail string
}

// c15Eval: on = output with the flag, off = output without it.
func c15Eval(sc *sweepCase, names []string, applies bool, planIn, planWant, on, off string) []c15Finding {
	var fs []c15Finding
	if !applies {
		if on != off {
			fs = append(fs, c15Finding{"foreign-namespace-changed", "line", "the line belongs to another namespace but differs from the output without the flag"})
		}
		return fs
	}
	jo, e1 := ParseJSON([]byte(on))
	jf, e2 := ParseJSON([]byte(off))
	if e1 != nil || e2 != nil {
		return nil
	}
	listed := map[string]bool{}
	for _, n := range names {
		listed[n] = true
	}
	tokenLeak := func(s string) string {
		for _, comp := range strings.Split(strings.TrimLeft(s, "$"), ".") {
			if listed[comp] {
				return comp
			}
		}
		return ""
	}
	// walk input / on / off in parallel below the command document
	var walk func(in *LNode, a, b *JNode, path []string)
	walk = func(in *LNode, a, b *JNode, path []string) {
		if a.Kind != b.Kind || len(a.Kids) != len(b.Kids) || in.Kind != a.Kind || len(in.Kids) != len(a.Kids) {
			if in.Kind == JObj || in.Kind == JArr || a.Kind == JObj || a.Kind == JArr {
				fs = append(fs, c15Finding{"shape-changed", strings.Join(path, "."), "member count / kind differs from the output without the flag"})
			} else if in.Lab.K != LabFieldRef && !(in.Kind == JStr && strings.HasPrefix(in.Str, "$")) {
				fs = append(fs, c15Finding{"value-differs", strings.Join(path, "."), "a value has another type than without the flag"})
			}
			return
		}
		switch in.Kind {
		case JObj:
			for i := range in.Kids {
				k := in.Keys[i]
				seg := sigSeg(in, i)
				switch in.KeyLab[i] {
				case KeyFN:
					if want := HashName(k); a.Keys[i] != want {
						d := fmt.Sprintf("key %q is emitted as %q, its pseudonym elsewhere is %q", k, a.Keys[i], want)
						o := "key-not-renamed"
						if a.Keys[i] != k {
							o = "key-pseudonym-inconsistent"
						}
						loc := strings.Join(append(path, seg), ".")
						if !listed[k] && !strings.Contains(k, ".") && !strings.Contains(k, "$") && k != "_id" {
							loc = path0(path) + ".….word=" + k // a user field whose name is also a word of the operator vocabulary
						}
						fs = append(fs, c15Finding{o, loc, d})
					}
				case KeyPlain:
					// operators / structural keys: the property does not say what happens to them under this flag
				default: // KeyFn: not listed by the property, either form is accepted
					if a.Keys[i] != k && a.Keys[i] != HashName(k) {
						fs = append(fs, c15Finding{"key-pseudonym-inconsistent", strings.Join(append(path, seg), "."), fmt.Sprintf("key %q is emitted as %q", k, a.Keys[i])})
					}
				}
				walk(in.Kids[i], a.Kids[i], b.Kids[i], append(path, seg))
			}
		case JArr:
			for i := range in.Kids {
				walk(in.Kids[i], a.Kids[i], b.Kids[i], append(path, "[]"))
			}
		case JStr:
			if in.Lab.K == LabFieldRef {
				if strings.HasPrefix(in.Str, "$$") {
					return
				}
				if want := HashName(in.Str); a.Str != want {
					o := "ref-not-renamed"
					if a.Str != in.Str {
						o = "ref-pseudonym-inconsistent"
					}
					fs = append(fs, c15Finding{o, strings.Join(path, "."), fmt.Sprintf("the reference %q is emitted as %q, the pseudonym of that name is %q", in.Str, a.Str, want)})
				}
				return
			}
			if strings.HasPrefix(in.Str, "$") {
				return // other '$' strings ($$ROOT, $$DESCEND …): don't care
			}
			if (in.Lab.K == LabSecret || in.Lab.K == LabKeep) && a.Str != b.Str {
				fs = append(fs, c15Finding{"value-differs", strings.Join(path, "."), fmt.Sprintf("a value is redacted differently than without the flag: %q vs %q", trunc(a.Str, 40), trunc(b.Str, 40))})
			}
		case JNum:
			if in.Lab.K != LabSecret && in.Lab.K != LabKeep {
				return
			}
			if a.Num != b.Num {
				fs = append(fs, c15Finding{"value-differs", strings.Join(path, "."), "a number differs from the output without the flag"})
			}
		case JBool:
			if (in.Lab.K == LabSecret || in.Lab.K == LabKeep) && a.Bool != b.Bool {
				fs = append(fs, c15Finding{"value-differs", strings.Join(path, "."), "a boolean differs from the output without the flag"})
			}
		}
	}
	cmdPath := sc.Path(sc.C.Cmd)
	ca, cb := follow(jo, cmdPath), follow(jf, cmdPath)
	if ca != nil && cb != nil {
		walk(sc.C.Cmd, ca, cb, nil)
	}
	// plan summary
	attrOn := follow(jo, sc.Path(sc.C.Attr))
	if attrOn != nil {
		for i, k := range attrOn.Keys {
			if k == "planSummary" && attrOn.Kids[i].Kind == JStr && attrOn.Kids[i].Str != planWant {
				fs = append(fs, c15Finding{"plan-summary", "attr.planSummary", fmt.Sprintf("plan summary %q is emitted as %q; with every index key replaced by its pseudonym it reads %q", planIn, attrOn.Kids[i].Str, planWant)})
			}
		}
	}
	// absence, token level: keys, '$' strings, plan-summary identifiers; long names as substrings
	var scan func(j *JNode, path []string)
	scan = func(j *JNode, path []string) {
		switch j.Kind {
		case JObj:
			for i, k := range j.Keys {
				if t := tokenLeak(k); t != "" && !(len(path) < 2) {
					fs = append(fs, c15Finding{"name-remains", "key", fmt.Sprintf("the planted name %q remains as (part of) the key %q at %s", t, k, strings.Join(path, "."))})
				}
				scan(j.Kids[i], append(path, k))
			}
		case JArr:
			for _, k := range j.Kids {
				scan(k, append(path, "[]"))
			}
		case JStr:
			if strings.HasPrefix(j.Str, "$") && !strings.HasPrefix(j.Str, "$$") {
				if t := tokenLeak(j.Str); t != "" {
					fs = append(fs, c15Finding{"name-remains", "ref", fmt.Sprintf("the planted name %q remains in the reference %q at %s", t, j.Str, strings.Join(path, "."))})
				}
			}
			if len(path) == 2 && path[1] == "planSummary" {
				for _, tok := range identRe.FindAllString(j.Str, -1) {
					if t := tokenLeak(tok); t != "" && tok != "IXSCAN" {
						fs = append(fs, c15Finding{"name-remains", "planSummary", fmt.Sprintf("the planted name %q remains in the plan summary %q", t, j.Str)})
					}
				}
			}
		}
	}
	scan(jo, nil)
	for _, n := range names {
		if len(n) >= 8 && strings.Contains(on, jsonInner(n)) {
			fs = append(fs, c15Finding{"name-remains", "substring", fmt.Sprintf("the planted name %q remains somewhere in the line", n)})
		}
	}
	return fs
}

func path0(p []string) string {
	if len(p) == 0 {
		return ""
	}
	return p[0]
}

func c15Run(c *Ctx) {
	wordsInOtherRoles(c, "C15")
	lineNS := "dbZq1.coQx7"
	type nsRel struct {
		tag, prefix string
		applies     bool
	}
	rels := []nsRel{{"equal", "dbZq1.coQx7", true}, {"proper-prefix-db", "dbZq1", true}, {"proper-prefix-partial", "dbZq1.co", true}, {"different", "otherDb.coQx7", false}, {"longer", "dbZq1.coQx7extra", false}}
	for si, set := range c15NameSets {
		plansFor := func() []struct{ name, in, want string } { Flags{}.Apply(); return c15Plans(set.names) }
		nplans := len(plansFor())
		for pi := 0; pi < nplans; pi++ {
			if pi > 3 && si > 0 && !c.Thorough() && pi != 5 {
				continue
			}
			o := GenOpts{FieldNames: set.names, LeafSet: 2, PlanSummary: plansFor()[pi].in}
			layers := []sweepLayer{{"L0", o, 0, nil}}
			if pi == 3 {
				o1 := o
				o1.OneGate = true
				layers = append(layers, sweepLayer{"L1", o1, 1, nil})
			}
			sweep(c, layers, func(sc *sweepCase) bool {
				if !sc.C.InClaim || sc.C.Root.HasDup() {
					return false
				}
				c.Distinct(sc.Line)
				for ri, rel := range rels {
					if ri > 1 && (sc.Layer != "L0" || pi != 3) {
						continue
					}
					for _, base := range []Flags{{}, {N: true, B: true, R: "x"}, {R: "${1}US$ %s"}, {W: true, I: true}, {Y: true}} {
						if (base.N || base.R != "" || base.W || base.Y) && (sc.Layer != "L0" || ri > 0) {
							continue
						}
						fl := base
						fl.F = []string{rel.prefix}
						off := base
						off.Apply()
						outOff, ok2, pv2 := redactLine(sc.Line)
						fl.Apply()
						outOn, ok1, pv1 := redactLine(sc.Line)
						c.Eval(2)
						if pv1 != nil || pv2 != nil || !ok1 || !ok2 {
							c.Count("skipped_panics_or_rejected", 1)
							continue
						}
						applies := rel.applies && sc.C.HasNS
						plan := c15Plans(set.names)[pi] // under the active replacement text
						fs := c15Eval(sc, set.names, applies, plan.in, plan.want, outOn, outOff)
						if len(fs) == 0 {
							c.Outcome("renamed-as-specified")
							continue
						}
						c.Outcome("finding")
						seen := map[string]bool{}
						for _, f := range fs {
							loc := f.loc
							if f.oracle != "name-remains" && f.oracle != "plan-summary" && f.oracle != "foreign-namespace-changed" && !strings.Contains(loc, "word=") {
								loc = c14Loc(strings.ReplaceAll(loc, ".[]", "[]"))
							}
							sig := "fieldnames:" + f.oracle + ":" + loc
							if f.oracle == "plan-summary" {
								sig += ":" + plan.name + ":" + set.tag
							}
							if seen[sig] {
								continue
							}
							seen[sig] = true
							line, oracle := sc.Line, f.oracle
							c.Violate(sig, fmt.Sprintf("%s: %s; slot %s; names %s; prefix %s (%s); flags [%s]; input: %s | output: %s", f.oracle, f.detail, sc.C.SlotName, set.tag, rel.prefix, rel.tag, fl, trunc(line, 500), trunc(outOn, 500)),
								int64(len(line)), replayOf(sc, fl, map[string]any{"output": outOn, "output_without_flag": outOff, "names": set.tag, "plan": plan.name}),
								func() bool {
									off.Apply()
									b, _, _ := redactLine(line)
									fl.Apply()
									a, _, _ := redactLine(line)
									p2 := c15Plans(set.names)[pi]
									for _, g := range c15Eval(sc, set.names, applies, p2.in, p2.want, a, b) {
										if g.oracle == oracle {
											return true
										}
									}
									return false
								})
						}
					}
				}
				if c.P.Evaluations < 100 {
					c.Sample(map[string]any{"slot": sc.C.SlotName, "names": set.tag, "line": trunc(sc.Line, 800)})
				}
				return false
			}, nil)
		}
	}
	_ = lineNS
	Flags{}.Apply()
	c15Prefixes(c)
	c15Sequences(c)
}

func c15Line(ns, field, plan string, i int) string {
	dot := strings.IndexByte(ns, '.')
	return LO("t", LO("$date", LS("2024-05-01T10:00:00.123+00:00")), "s", LS("I"), "c", LS("COMMAND"), "id", LN("51803"), "ctx", LS(fmt.Sprintf("conn%d", i)), "msg", LS("Slow query"),
		"attr", LO("type", LS("command"), "ns", LS(ns), "command", LO("find", LS(ns[dot+1:]), "filter", LO(field, LS("v"), "other", LO("$gt", LN("3"))), "sort", LO(field, LN("-1")), "$db", LS(ns[:dot])),
			"planSummary", LS(plan), "durationMillis", LN("12"))).JSON()
}

// c15Prefixes: --redactFieldNames may be given several times.  Every ordered list of 1..3 prefixes out of a pool whose
// members are prefixes of each other, against every namespace of a pool: the line is renamed exactly when SOME
// configured prefix is a prefix of its namespace - whatever the order, number and mutual relation of the prefixes.
func c15Prefixes(c *Ctx) {
	pool := []string{"shop", "shop.orders", "shop.users", "sho", "other", "shop.orders.archive", "t", "shop.o"}
	nss := []string{"shop.orders", "shop.users", "shop.zzz", "shopping.cart", "other.y", "zz.top", "shop.orders.archive", "sho.p", "t.t"}
	var lists [][]string
	for a := range pool {
		lists = append(lists, []string{pool[a]})
		for b := range pool {
			if b == a {
				continue
			}
			lists = append(lists, []string{pool[a], pool[b]})
			for d := range pool {
				if d == a || d == b {
					continue
				}
				lists = append(lists, []string{pool[a], pool[b], pool[d]})
			}
		}
	}
	lists = append(lists, append([]string{}, pool...), []string{"shop", "shop"}, []string{"zz", "yy", "xx", "ww", "shop.users"})
	var no int64
	check := func(list []string, ns, on, off, via string) {
		applies := false
		for _, p := range list {
			if strings.HasPrefix(ns, p) {
				applies = true
			}
		}
		c.Distinct(fmt.Sprintf("prefixes|%v|%s|%s", list, ns, via))
		rep := map[string]any{"kind": "prefix-list", "prefixes": list, "namespace": ns, "via": via}
		if !applies {
			if on != off {
				c.Violate("fieldnames:prefix-list:foreign-namespace-changed:"+via, fmt.Sprintf("--redactFieldNames %v, line of namespace %s (%s): no configured prefix is a prefix of it, but the line differs from the run without the flag", list, ns, via), int64(len(list)), rep, nil)
			}
			return
		}
		j, err := ParseJSON([]byte(on))
		if err != nil {
			return
		}
		f := jGet(j, "attr", "command", "filter")
		so := jGet(j, "attr", "command", "sort")
		ps := jGet(j, "attr", "planSummary")
		want := HashName("acctNo")
		if f == nil || so == nil || ps == nil || len(f.Keys) != 2 || f.Keys[0] != want || f.Keys[1] != HashName("other") || so.Keys[0] != want || ps.Str != "IXSCAN { "+want+": 1 }" {
			c.Violate("fieldnames:prefix-list:not-renamed:"+via, fmt.Sprintf("--redactFieldNames %v, line of namespace %s (%s): a configured prefix is a prefix of the namespace, but the field names are not (all) replaced by their pseudonyms: %s", list, ns, via, trunc(on, 400)), int64(len(list)), rep, nil)
		}
	}
	for _, list := range lists {
		for ni, ns := range nss {
			no++
			if !c.Mine(no) {
				continue
			}
			line := c15Line(ns, "acctNo", "IXSCAN { acctNo: 1 }", ni)
			Flags{}.Apply()
			off, _, _ := redactLine(line)
			Flags{F: list}.Apply()
			on, _, _ := redactLine(line)
			c.Eval(2)
			check(list, ns, on, off, "in-process")
		}
	}
	c.Count("prefix_lists", int64(len(lists)))
	// through the CLI flag wiring: one run per list over all namespaces (every 3rd list in the quick tier)
	dir := freshDir(c.Scratch, "c15pref")
	var in strings.Builder
	for ni, ns := range nss {
		in.WriteString(c15Line(ns, "acctNo", "IXSCAN { acctNo: 1 }", ni) + "\n")
	}
	os.WriteFile(filepath.Join(dir, "in.log"), []byte(in.String()), 0o644)
	offRes, err := runCLI(CLIRun{Bin: c.CLI, Args: []string{"redact", "in.log"}, Dir: dir})
	if err != nil || offRes.Exit != 0 {
		c.HarnessError("C15 prefix lists: CLI run without the flag failed: %v", err)
		return
	}
	offLines := strings.Split(strings.TrimSuffix(string(offRes.Stdout), "\n"), "\n")
	Flags{}.Apply()
	for li, list := range lists {
		if !c.Mine(int64(li)) || (!c.Thorough() && li%3 != 0 && len(list) < 4) {
			continue
		}
		res, err := runCLI(CLIRun{Bin: c.CLI, Args: append([]string{"redact", "in.log"}, Flags{F: list}.CLIArgs("")...), Dir: dir})
		if err != nil {
			c.HarnessError("C15 prefix lists: %v", err)
			return
		}
		c.Eval(1)
		c.Count("cli_runs", 1)
		onLines := strings.Split(strings.TrimSuffix(string(res.Stdout), "\n"), "\n")
		if res.Exit != 0 || len(onLines) != len(nss) {
			c.Violate("fieldnames:prefix-list:cli-run", fmt.Sprintf("--redactFieldNames %v: exit %d, %d output lines for %d input lines: %s", list, res.Exit, len(onLines), len(nss), trunc(string(res.Stderr), 200)), int64(len(list)), map[string]any{"kind": "prefix-list", "prefixes": list}, nil)
			continue
		}
		for ni, ns := range nss {
			check(list, ns, onLines[ni], offLines[ni], "cli")
		}
	}
}

// c15Sequences: lines of chosen and of other namespaces in one run.  Every sequence of up to 3 lines over an
// alphabet in which a chosen and a foreign namespace carry byte-identical plan summaries, filters and field names
// is run through the CLI; every output line must equal what its input line yields in a run of its own.
func c15Sequences(c *Ctx) {
	if c.NShards > 1 && c.Shard != 2%c.NShards && c.Shard != 3%c.NShards {
		return
	}
	alpha := []string{
		c15Line("shop.orders", "acctNo", "IXSCAN { acctNo: 1 }", 1),
		c15Line("crm.orders", "acctNo", "IXSCAN { acctNo: 1 }", 1),
		c15Line("shop.users", "email", "IXSCAN { acctNo: 1, email: -1 }", 2),
		c15Line("crm.users", "email", "IXSCAN { acctNo: 1, email: -1 }", 2),
		c15Line("shop.orders", "email", "COLLSCAN", 3),
		c15Line("crm.orders", "other", "IXSCAN { other: 1 }", 4),
		// lines that carry a command but no attr.ns (error reports): they belong to no chosen namespace
		`{"t":{"$date":"2024-05-01T10:00:07.000+00:00"},"s":"W","c":"QUERY","id":25000,"ctx":"conn5","msg":"Aggregate command executor error","attr":{"error":{"code":292,"errmsg":"Sort exceeded memory limit"},"stats":{"stage":"SORT"},"cmd":{"aggregate":"orders","pipeline":[{"$match":{"acctNo":"v","email":{"$ne":null}}},{"$sort":{"acctNo":-1}},{"$group":{"_id":"$email","n":{"$sum":1}}}],"cursor":{},"$db":"shop"}}}`,
		`{"t":{"$date":"2024-05-01T10:00:08.000+00:00"},"s":"I","c":"COMMAND","id":51803,"ctx":"conn6","msg":"Slow query","attr":{"type":"command","command":{"find":"users","filter":{"email":"v","acctNo":{"$gt":3}},"sort":{"email":1},"$db":"crm"},"planSummary":"IXSCAN { acctNo: 1, email: -1 }","durationMillis":3}}`,
	}
	dir := freshDir(c.Scratch, "c15seq")
	for fi, fl := range []Flags{{F: []string{"shop"}}, {F: []string{"shop.orders", "crm.users"}, N: true}} {
		if c.NShards > 1 && c.Shard != (2+fi)%c.NShards {
			continue
		}
		run := func(lines []string) ([]string, bool) {
			os.WriteFile(filepath.Join(dir, "in.log"), []byte(strings.Join(lines, "\n")+"\n"), 0o644)
			res, err := runCLI(CLIRun{Bin: c.CLI, Args: append([]string{"redact", "in.log"}, fl.CLIArgs("")...), Dir: dir})
			c.Eval(1)
			c.Count("cli_runs", 1)
			if err != nil || res.Exit != 0 {
				return nil, false
			}
			return strings.Split(strings.TrimSuffix(string(res.Stdout), "\n"), "\n"), true
		}
		solo := make([]string, len(alpha))
		for i, l := range alpha {
			o, ok := run([]string{l})
			if !ok || len(o) != 1 {
				c.HarnessError("C15 sequences: one-line run failed")
				return
			}
			solo[i] = o[0]
		}
		// every environment variable the sources read (scraped from the code), other than the documented key pair and
		// version override, set to the empty string / to a namespace: no line may come out differently
		for _, name := range scrapeEnvNames(c.Src) {
			for _, val := range []string{"", "crm", "shop.orders,"} {
				os.WriteFile(filepath.Join(dir, "in.log"), []byte(strings.Join(alpha, "\n")+"\n"), 0o644)
				res, err := runCLI(CLIRun{Bin: c.CLI, Args: append([]string{"redact", "in.log"}, fl.CLIArgs("")...), Dir: dir, Env: []string{name + "=" + val}})
				c.Eval(1)
				c.Count("cli_runs", 1)
				c.Distinct(fmt.Sprintf("env|%d|%s=%s", fi, name, val))
				if err != nil {
					continue
				}
				if res.Exit != 0 || string(res.Stdout) != strings.Join(solo, "\n")+"\n" {
					c.Violate("fieldnames:environment-variable-changes-the-output", fmt.Sprintf("flags [%s]: with %s=%q in the environment (a variable the sources read) the run exits %d and its output differs from the one-line runs without it", fl, name, val, res.Exit), int64(len(val)),
						map[string]any{"kind": "c15-env", "variable": name, "value": val, "flags": fl.String()}, nil)
				}
			}
		}
		depth := 3
		var seq []int
		var rec func()
		rec = func() {
			if len(seq) > 1 {
				var ls []string
				for _, i := range seq {
					ls = append(ls, alpha[i])
				}
				out, ok := run(ls)
				c.Distinct(fmt.Sprintf("seq|%d|%v", fi, seq))
				bad := !ok || len(out) != len(seq)
				at := -1
				if !bad {
					for k, i := range seq {
						if out[k] != solo[i] {
							bad, at = true, k
							break
						}
					}
				}
				if bad {
					what := "the run fails or emits another number of lines"
					if at >= 0 {
						what = fmt.Sprintf("line %d comes out as %s, on its own the same line gives %s", at+1, trunc(out[at], 300), trunc(solo[seq[at]], 300))
					}
					c.Violate("fieldnames:sequence:line-depends-on-earlier-lines", fmt.Sprintf("flags [%s], sequence %v of the line alphabet (chosen / foreign namespaces with identical plan summaries and field names): %s", fl, seq, what), int64(len(seq)),
						map[string]any{"kind": "c15-sequence", "sequence": seq, "flags": fl.String(), "lines": ls}, nil)
				}
			}
			if len(seq) == depth {
				return
			}
			for i := range alpha {
				seq = append(seq, i)
				rec()
				seq = seq[:len(seq)-1]
			}
		}
		rec()
	}
}

func init() {
	register(&PropDef{
		ID: "C15", Level: "exploration",
		Rule:        "G at 0 deviations (all slots x 4 gates x 6 containers; <=1 non-default production for the distinctive name set) with user field names planted from 5 adversarial pools (shaped like the tool's own pseudonyms; distinctive; one-letter names and names that are substrings of each other, of 'IXSCAN' and of 'REDACTED'; hex-looking and digit-leading; long / non-ASCII / with space / with quote) in the positions the property lists (keys of filter / query / update / inserted documents / sort, $match and $sort stages; '$field' references) - positions it does not list ($group / $project / $addFields keys, search paths) draw from a separate pool - x 7 plan summaries (COLLSCAN, IDHACK, IXSCAN single / compound / dotted / several / same name twice) built from the same names x configured prefix vs line namespace {equal, database only, partial, different database, longer than the namespace} x {plain, N+B+replacement}. Oracles, against the output without the flag walked in parallel: listed keys and references hold the component-wise pseudonym of their name (same everywhere), operators and structural keys are unchanged, member count and order kept, every other value identical to the run without the flag, the plan summary equals the input with each index key replaced by its pseudonym, no planted name remains as a key component, reference component or plan-summary token (names of 8+ characters: anywhere), and lines of other namespaces are byte-identical to the run without the flag. distinct = distinct input lines" + "; prefix lists: every ordered list of 1..3 out of 8 prefixes (+3 special lists) x 9 namespaces in-process, every 3rd list (thorough: all) through the CLI; sequences: all sequences of 2..3 lines over a 6-line alphabet (chosen / foreign namespaces with identical plan summaries and names) x 2 flag sets through the CLI against one-line runs" + wordsRule,
		Assumptions: []string{"the pseudonym function is C13's subject; its value is taken from the tool", "$$ variables and positions the property does not list are don't-care"},
		Run:         c15Run,
	})
}
