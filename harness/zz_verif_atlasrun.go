//go:build verif

package main

// Atlas protocol: scripted runs, the reference model, and the two drivers (library level in-process,
// CLI level through the real main() in a child process).  Shared by C16, C17 and C20.

import (
	"bytes"
	"context"
	"encoding/base64"
	"encoding/json"
	"fmt"
	"net/http"
	"net/url"
	"os"
	"path/filepath"
	"sort"
	"strconv"
	"strings"
	"time"
)

const (
	atlasProject = "649c9a785e44024904135520"
	atlasCluster = "myCluster0"
	atlasPub     = "pubkQzvx"
	atlasPriv    = "pR1v+Key/7e1f 9c&a=Z%q" // characters that change under URL-, base64- and JSON-encoding
)

type phasePlan struct {
	Un, Au string // answers to the unauthenticated / authenticated request
	Cut    int    // for Au == cut: index into the cut menu
	Retry  string // what a repeated request for the resource gets (only asked for when the phase fails)
}

type hostPlan struct {
	phasePlan
	Name    string
	Port    bool
	Payload int // index into payloadKinds
}

type atlasRun struct {
	Hosts       []hostPlan
	Cluster     phasePlan
	ClusterBody int // 0 standard; 1 SRV; 2 not JSON; 3 no connection string; 4 malformed connection string
	OutFault    int // 0 none; 1 <out>.<k> is a directory; 2 output directory missing; 3 <out>.<k> is a symbolic link to /dev/full
	KeyState    int // CLI level, with --encrypt: state of the key path (see atlasKeyStates); 0 = a fresh path
	OutFaultAt  int
	Window      bool
	KeySupply   int // 0 flags; 1 environment; 2 public by flag, private by env; 3 the other way round; 4 flags spelled --flag=value; 5 public by env, private --flag=value
	TmpForm     int // spelling of TMPDIR: 0 clean; 1 trailing slash; 2 "/./" inside; 3 "//" inside; 4 through a symbolic link
	KillAt      int // CLI level: the process is killed when this request arrives (crash histories); 0 = never
	Fl          Flags
	Desc        []string
}

var unauthMenu = []string{AnsDigest, AnsOK, AnsBasic, Ans401, Ans404, Ans500Echo, AnsNetErr, AnsBadDig, Ans403}
var authMenu = []string{AnsOK, Ans401, Ans403, Ans404, Ans500Echo, AnsNetErr, AnsCut}
var retryMenu = []string{RetrySame, RetryFlow, Ans500Echo, AnsNetErr, Ans404, AnsBasic}
var atlasKeyStates = []string{"fresh", "valid", "too-short", "not-base64", "directory", "parent-missing"}
var tmpForms = []string{"clean", "trailing-slash", "dot-segment", "double-slash", "symlink"}
var cutMenuN = 4 // 0, 1, len/2, len-1

var payloadKinds = []string{"valid", "gzip-of-nothing", "multi-member", "large", "zero-bytes", "not-gzip", "over-long-line", "blank-and-garbage-lines", "compressed-bytes-without-0x0A", "members-split-inside-a-line", "short"}

var payloadCache = map[string][]byte{}

func payloadBytes(kind int, host string) []byte {
	key := fmt.Sprintf("%d|%s", kind, host)
	if b, ok := payloadCache[key]; ok {
		return b
	}
	b := payloadBytesUncached(kind, host)
	payloadCache[key] = b
	return b
}

func payloadBytesUncached(kind int, host string) []byte {
	line := func(i int) string {
		return fmt.Sprintf(`{"t":{"$date":"2024-05-01T10:00:0%d.000+00:00"},"s":"I","c":"COMMAND","id":51803,"ctx":"conn%d","msg":"Slow query","attr":{"type":"command","ns":"shop.orders","command":{"find":"orders","filter":{"email":"user%d@%s","n":%d},"$db":"shop"},"remote":"10.1.2.%d:5000","durationMillis":%d}}`, i%10, i, i, host, i, i%250, i)
	}
	switch payloadKinds[kind] {
	case "gzip-of-nothing":
		return gzBytes([]byte{})
	case "multi-member":
		return gzBytes([]byte(line(1)+"\n"+line(2)+"\n"), []byte(line(3)+"\n"), []byte{}, []byte(line(4)+"\n"))
	case "large":
		var sb strings.Builder
		for i := 0; i < 1500; i++ {
			sb.WriteString(line(i))
			sb.WriteByte('\n')
		}
		return gzBytes([]byte(sb.String()))
	case "members-split-inside-a-line":
		// a legal multi-member archive whose member boundaries fall inside lines (an archive cut by byte count)
		all := line(1) + "\n" + line(2) + "\n" + line(3) + "\n" + line(4) + "\n"
		a, b := len(line(1))+40, 2*len(line(1))+len(line(2))/2
		return gzBytes([]byte(all[:a]), []byte(all[a:b]), []byte(all[b:]))
	case "short":
		return gzBytes([]byte(line(7) + "\n"))
	case "zero-bytes":
		return []byte{}
	case "not-gzip":
		return []byte(line(1) + "\n" + line(2) + "\n")
	case "over-long-line":
		return gzBytes([]byte(line(1) + "\n" + `{"c":"COMMAND","attr":{"command":{"find":"c","filter":{"a":"` + strings.Repeat("x", 70000) + `"}}}}` + "\n" + line(2) + "\n"))
	case "blank-and-garbage-lines":
		return gzBytes([]byte(line(1) + "\n\n   \nnot json at all\n" + line(2) + "\r\n" + line(3)))
	}
	// "valid": three lines whose COMPRESSED form contains a 0x0A byte; "compressed-bytes-without-0x0A": the
	// same kind of log whose compressed form contains none (a tool that looks at the raw download for line
	// ends sees "no lines" there).  Found by a deterministic search over a padding counter.
	wantLF := payloadKinds[kind] != "compressed-bytes-without-0x0A"
	for pad := 0; ; pad++ {
		b := gzBytes([]byte(line(1) + "\n" + line(2+pad) + "\n" + line(3) + "\n"))
		if bytes.IndexByte(b, 0x0A) >= 0 == wantLF {
			return b
		}
		if pad > 5000 {
			return b
		}
	}
}

func payloadProcessable(kind int) bool {
	switch payloadKinds[kind] {
	case "zero-bytes", "not-gzip", "over-long-line":
		return false
	}
	return true
}

func cutAt(menu int, n int) int {
	switch menu {
	case 0:
		return 0
	case 1:
		if n > 1 {
			return 1
		}
		return 0
	case 2:
		return n / 2
	}
	if n > 0 {
		return n - 1
	}
	return 0
}

type atlasGenOpts struct {
	MaxHosts        int
	SuccessOnly     bool // only cooperative answers (challenge or not), for C16
	HostNames       int  // 0 = h-00-00 …; 1 = names whose order differs from the sorted order
	Supplies        bool // enumerate the ways of supplying the key pair
	PayloadFree     bool // payload kinds as a full product instead of deviations
	MinHosts        int  // smallest number of hosts (default 1)
	AlwaysChallenge bool // with SuccessOnly: every request is challenged (no choice)
	TmpForm         int  // spelling of TMPDIR for all runs of this exploration (index into tmpForms)
}

// genAtlasRun is the explorer body: choice points are created lazily, only for requests the model
// says will be sent, so the enumeration is the tree of all distinguishable server behaviours.
func genAtlasRun(x *X, o atlasGenOpts) *atlasRun {
	r := &atlasRun{}
	minH := o.MinHosts
	if minH < 1 {
		minH = 1
	}
	n := minH + x.Free(o.MaxHosts-minH+1, "number of hosts")
	names := []string{"cl0-shard-00-00.abcde.mongodb.net", "cl0-shard-00-01.abcde.mongodb.net", "cl0-shard-00-02.abcde.mongodb.net", "cl0-shard-00-03.abcde.mongodb.net", "cl0-shard-00-04.abcde.mongodb.net"}
	if o.HostNames == 1 {
		names = []string{"zeta-02.example.net", "alpha-00.example.net", "midway-01.example.net", "beta-04.example.net", "omega-03.example.net"}
	}
	ports := x.Free(3, "ports") // all with ports, none, mixed
	for i := 0; i < n; i++ {
		r.Hosts = append(r.Hosts, hostPlan{Name: names[i], Port: ports == 0 || (ports == 2 && i%2 == 0)})
	}
	if o.Supplies {
		r.KeySupply = x.Free(6, "key supply")
	}
	r.Window = x.Free(2, "window flags") == 1
	r.TmpForm = o.TmpForm
	phase := func(label string) (phasePlan, bool) {
		var p phasePlan
		um, am := unauthMenu, authMenu
		if o.SuccessOnly {
			um, am = unauthMenu[:2], authMenu[:1]
			if o.AlwaysChallenge {
				um = unauthMenu[:1]
			}
		}
		p.Un = um[x.Free(len(um), label+": answer to the unauthenticated request")]
		// a 401 may offer several challenges; the second one is a deviation of its own
		if !o.SuccessOnly {
			switch p.Un {
			case AnsDigest:
				if x.Costly(2, label+": a Basic challenge offered after the Digest one") == 1 {
					p.Un = AnsDigestBasic
				}
			case AnsBasic:
				if x.Costly(2, label+": a Digest challenge offered after the Basic one") == 1 {
					p.Un = AnsBasicDigest
				}
			}
		}
		switch p.Un {
		case AnsOK:
			return p, true
		case AnsDigest, AnsDigestBasic:
			p.Au = am[x.Free(len(am), label+": answer to the authenticated request")]
			if p.Au == Ans401 && !o.SuccessOnly {
				p.Au = []string{Ans401, Ans401Offer, Ans401Basic}[x.Costly(3, label+": challenges offered with the 401 that refuses the digest response")]
			}
			if p.Au == AnsCut {
				p.Cut = x.Free(cutMenuN, label+": body cut position")
			}
			return p, p.Au == AnsOK
		}
		return p, false
	}
	var ok bool
	r.Cluster, ok = phase("cluster")
	if !ok {
		r.Desc = append(r.Desc, "cluster lookup fails: "+r.Cluster.Un+"/"+r.Cluster.Au)
		return r
	}
	if !o.SuccessOnly {
		r.ClusterBody = x.Costly(5, "cluster description")
		if r.ClusterBody >= 1 {
			r.Desc = append(r.Desc, fmt.Sprintf("cluster description kind %d", r.ClusterBody))
			return r
		}
	}
	for i := range r.Hosts {
		var p phasePlan
		p, ok = phase(fmt.Sprintf("host %d", i))
		r.Hosts[i].phasePlan = p
		if !ok {
			r.Desc = append(r.Desc, fmt.Sprintf("download %d fails: %s/%s", i, p.Un, p.Au))
			return r
		}
	}
	for i := range r.Hosts {
		if o.PayloadFree {
			r.Hosts[i].Payload = x.Free(len(payloadKinds), fmt.Sprintf("payload of host %d", i))
		} else {
			r.Hosts[i].Payload = x.Costly(len(payloadKinds), fmt.Sprintf("payload of host %d", i))
		}
	}
	if !o.SuccessOnly {
		r.OutFault = x.Costly(4, "output fault")
		if r.OutFault == 1 || r.OutFault == 3 {
			r.OutFaultAt = x.Free(n, "which output path is unusable")
		}
	}
	return r
}

// repeatedRequest: did the client ask for a resource again (same resource, same authentication class)?  A
// conforming client never does; one that tries again after a failure does, and what it gets THEN is a choice
// point of its own — created only when the first execution shows that the question arises.
func repeatedRequest(reqs []AtlasReq) bool {
	seen := map[string]bool{}
	for _, q := range reqs {
		k := q.Kind + "|" + q.LogHost + "|" + fmt.Sprint(q.Auth != "")
		if seen[k] {
			return true
		}
		seen[k] = true
	}
	return false
}

// withRetry: a copy of the run in which every repeated request gets the answer a.
func (r *atlasRun) withRetry(a string) *atlasRun {
	c := *r
	c.Hosts = append([]hostPlan(nil), r.Hosts...)
	c.Cluster.Retry = a
	for i := range c.Hosts {
		c.Hosts[i].Retry = a
	}
	return &c
}

func (r *atlasRun) hostNames() []string {
	var hs []string
	for _, h := range r.Hosts {
		hs = append(hs, h.Name)
	}
	return hs
}

func (r *atlasRun) script() *AtlasScript {
	s := &AtlasScript{Public: atlasPub, Private: r.priv(), ClusterUnauth: r.Cluster.Un, ClusterAuth: r.Cluster.Au, ClusterRetry: r.Cluster.Retry, KillAtRequest: r.KillAt, Hosts: map[string]*HostScript{}}
	var ports []bool
	for _, h := range r.Hosts {
		ports = append(ports, h.Port)
	}
	switch r.ClusterBody {
	case 0:
		s.ClusterBody = clusterBodyFor(r.hostNames(), ports, false)
	case 1:
		s.ClusterBody = clusterBodyFor(r.hostNames(), ports, true)
	case 2:
		s.ClusterBody = "<html>Service Unavailable</html>"
	case 3:
		s.ClusterBody = `{"name":"c","stateName":"CREATING"}`
	default:
		s.ClusterBody = `{"connectionStrings":{"standard":"mongodb://host:notaport:x,,/?replicaSet=%zz"}}`
	}
	s.ClusterCut = cutAt(r.Cluster.Cut, len(s.ClusterBody))
	for _, h := range r.Hosts {
		p := payloadBytes(h.Payload, h.Name)
		s.Hosts[h.Name] = &HostScript{Unauth: h.Un, Auth: h.Au, Payload: p, Cut: cutAt(h.Cut, len(p)), Retry: h.Retry}
	}
	return s
}

type expReq struct {
	Kind, Host string
	Auth       bool
}

// model: the expected request sequence, how many downloads complete, whether the run succeeds.
func (r *atlasRun) model() (reqs []expReq, downloaded int, success bool, failWhere string) {
	phase := func(kind, host string, p phasePlan) bool {
		reqs = append(reqs, expReq{kind, host, false})
		switch p.Un {
		case AnsOK:
			return true
		case AnsDigest, AnsDigestBasic:
			reqs = append(reqs, expReq{kind, host, true})
			return p.Au == AnsOK
		}
		return false
	}
	if !phase("cluster", "", r.Cluster) {
		return reqs, 0, false, "cluster lookup"
	}
	if r.ClusterBody == 1 {
		// SRV strings name one host; offline there is nothing to resolve: open (see DESIGN.md section 5)
		return reqs, 0, false, "srv"
	}
	if r.ClusterBody >= 2 {
		return reqs, 0, false, "cluster description"
	}
	for i, h := range r.Hosts {
		if !phase("log", h.Name, h.phasePlan) {
			return reqs, i, false, fmt.Sprintf("download %d", i)
		}
	}
	for i, h := range r.Hosts {
		if !payloadProcessable(h.Payload) {
			return reqs, len(r.Hosts), false, fmt.Sprintf("payload %d", i)
		}
		if (r.OutFault == 1 || r.OutFault == 3) && r.OutFaultAt == i {
			if r.OutFault == 3 && payloadKinds[h.Payload] == "gzip-of-nothing" {
				continue // nothing is written to the full device
			}
			return reqs, len(r.Hosts), false, fmt.Sprintf("output %d", i)
		}
		if r.OutFault == 2 {
			return reqs, len(r.Hosts), false, "output directory"
		}
	}
	return reqs, len(r.Hosts), true, ""
}

func (r *atlasRun) String() string {
	var hs []string
	for i, h := range r.Hosts {
		rt := ""
		if h.Retry != "" {
			rt = " again→" + h.Retry
		}
		hs = append(hs, fmt.Sprintf("host%d[%s/%s cut%d payload=%s%s]", i, h.Un, h.Au, h.Cut, payloadKinds[h.Payload], rt))
	}
	crt := ""
	if r.Cluster.Retry != "" {
		crt = " again→" + r.Cluster.Retry
	}
	extra := ""
	if r.TmpForm != 0 {
		extra += " TMPDIR=" + tmpForms[r.TmpForm]
	}
	if r.KillAt != 0 {
		extra += fmt.Sprintf(" killed-at-request-%d", r.KillAt)
	}
	if r.KeyState != 0 {
		extra += " key-path=" + atlasKeyStates[r.KeyState]
	}
	return fmt.Sprintf("cluster[%s/%s cut%d body%d%s] %s outFault=%d@%d window=%v keys=%d flags[%s]%s", r.Cluster.Un, r.Cluster.Au, r.Cluster.Cut, r.ClusterBody, crt, strings.Join(hs, " "), r.OutFault, r.OutFaultAt, r.Window, r.KeySupply, r.Fl, extra)
}

// ---- observations
type atlasObs struct {
	Reqs     []AtlasReq
	Exit     int
	Err      string
	Stdout   string
	Stderr   string
	TmpLeft  map[string][]byte // files found under TMPDIR afterwards
	OutFiles map[string][]byte
	TempCopy map[int][]byte // library level: bytes of the downloaded temp files (before clean-up)
	T0, T1   int64
	Level    string
	KeyFile  []byte // CLI level with --encrypt: what the key path holds after the run (nil = no regular file)
}

const winStart, winEnd = 1714550000, 1714557200

func listFiles(dir string) map[string][]byte {
	out := map[string][]byte{}
	filepath.Walk(dir, func(p string, info os.FileInfo, err error) error {
		if err != nil || !info.Mode().IsRegular() {
			return nil // directories, symbolic links (one may point at /dev/full), devices
		}
		rel, _ := filepath.Rel(dir, p)
		b, _ := os.ReadFile(p)
		if len(b) > 1<<20 {
			b = b[:1<<20]
		}
		out[rel] = b
		return nil
	})
	return out
}

// tmpSpelling: the value TMPDIR gets for a directory, in one of the spellings a user's environment may hold
// (all name the same directory).
func tmpSpelling(tmp string, form int) string {
	dir, base := filepath.Dir(tmp), filepath.Base(tmp)
	switch tmpForms[form] {
	case "trailing-slash":
		return tmp + "/"
	case "dot-segment":
		return dir + "/./" + base
	case "double-slash":
		return dir + "//" + base
	case "symlink":
		l := filepath.Join(dir, "tmplink")
		os.Remove(l)
		if os.Symlink(tmp, l) == nil {
			return l
		}
	}
	return tmp
}

// execAtlasLib drives DownloadClusterLogs / ProcessMongoLogFile / DeleteClusterLogs the way main() does,
// in-process, with the scripted endpoint as http.DefaultTransport.
func execAtlasLib(r *atlasRun, dir string) *atlasObs {
	o := &atlasObs{Level: "library", TempCopy: map[int][]byte{}}
	tmp := filepath.Join(dir, "tmp")
	outDir := filepath.Join(dir, "outd")
	os.MkdirAll(tmp, 0o755)
	if r.OutFault != 2 {
		os.MkdirAll(outDir, 0o755)
	}
	if r.OutFault == 1 {
		os.MkdirAll(filepath.Join(outDir, fmt.Sprintf("out.log.%d", r.OutFaultAt)), 0o755)
	}
	if r.OutFault == 3 {
		os.Symlink("/dev/full", filepath.Join(outDir, fmt.Sprintf("out.log.%d", r.OutFaultAt)))
	}
	if r.OutFault == 0 {
		// what an earlier run left at the output paths: a longer file for every second host
		stale := []byte(strings.Repeat("{\"stale\":\"line of an earlier run\"}\n", 20000))
		for i := 1; i < len(r.Hosts); i += 2 {
			os.WriteFile(filepath.Join(outDir, fmt.Sprintf("out.log.%d", i)), stale, 0o644)
		}
	}
	oldTmp := os.Getenv("TMPDIR")
	os.Setenv("TMPDIR", tmpSpelling(tmp, r.TmpForm))
	defer os.Setenv("TMPDIR", oldTmp)
	fake := &fakeAtlas{script: r.script()}
	oldT := http.DefaultTransport
	http.DefaultTransport = fake
	defer func() { http.DefaultTransport = oldT }()
	so, _ := os.Create(filepath.Join(dir, "stdout.txt"))
	se, _ := os.Create(filepath.Join(dir, "stderr.txt"))
	oldO, oldE := os.Stdout, os.Stderr
	os.Stdout, os.Stderr = so, se
	restore := func() {
		os.Stdout, os.Stderr = oldO, oldE
		so.Close()
		se.Close()
	}
	start, end := winStart, winEnd
	o.T0 = time.Now().Unix()
	if !r.Window {
		// the default window (the last seven days) is main()'s business and is checked at the CLI level; the library is
		// driven with the values main() would pass (no function outside the test suite's vocabulary is called here)
		end = int(time.Now().Unix())
		start = end - 7*24*3600
	}
	func() {
		defer func() {
			if pv := recover(); pv != nil {
				o.Err = fmt.Sprintf("panic: %v", pv)
				o.Exit = 2
			}
		}()
		client := NewAtlasClient(nil)
		files, err := client.DownloadClusterLogs(context.Background(), atlasPub, r.priv(), atlasProject, atlasCluster, start, end)
		if err != nil {
			o.Err, o.Exit = err.Error(), 1
			return
		}
		for i, f := range files {
			b, _ := os.ReadFile(f)
			o.TempCopy[i] = b
		}
		defer client.DeleteClusterLogs(context.Background(), files)
		r.Fl.Apply()
		for i, f := range files {
			outPath := filepath.Join(outDir, fmt.Sprintf("out.log.%d", i))
			w, err := os.Create(outPath)
			if err != nil {
				o.Err, o.Exit = err.Error(), 1
				return
			}
			err = ProcessMongoLogFile(&DefaultFileReader{}, f, w, nil)
			w.Close()
			if err != nil {
				o.Err, o.Exit = err.Error(), 1
				return
			}
		}
	}()
	o.T1 = time.Now().Unix()
	restore()
	Flags{}.Apply()
	o.Reqs = fake.log
	sb, _ := os.ReadFile(filepath.Join(dir, "stdout.txt"))
	eb, _ := os.ReadFile(filepath.Join(dir, "stderr.txt"))
	o.Stdout, o.Stderr = string(sb), string(eb)+o.Err
	o.TmpLeft = listFiles(tmp)
	o.OutFiles = listFiles(outDir)
	return o
}

// execAtlasCLI runs the real main() in a child process (harness binary, child-cli mode).
func execAtlasCLI(c *Ctx, r *atlasRun, dir string) (*atlasObs, error) {
	o := &atlasObs{Level: "cli"}
	tmp := filepath.Join(dir, "tmp")
	outDir := filepath.Join(dir, "outd")
	os.MkdirAll(tmp, 0o755)
	if r.OutFault != 2 {
		os.MkdirAll(outDir, 0o755)
	}
	if r.OutFault == 1 {
		os.MkdirAll(filepath.Join(outDir, fmt.Sprintf("out.log.%d", r.OutFaultAt)), 0o755)
	}
	if r.OutFault == 3 {
		os.Symlink("/dev/full", filepath.Join(outDir, fmt.Sprintf("out.log.%d", r.OutFaultAt)))
	}
	if r.OutFault == 0 {
		// what an earlier run left at the output paths: a longer file for every second host
		stale := []byte(strings.Repeat("{\"stale\":\"line of an earlier run\"}\n", 20000))
		for i := 1; i < len(r.Hosts); i += 2 {
			os.WriteFile(filepath.Join(outDir, fmt.Sprintf("out.log.%d", i)), stale, 0o644)
		}
	}
	sb, _ := json.Marshal(r.script())
	scriptPath := filepath.Join(dir, "script.json")
	os.WriteFile(scriptPath, sb, 0o644)
	reqLog := filepath.Join(dir, "requests.jsonl")
	args := []string{"redact", "--atlasProjectId", atlasProject, "--atlasClusterName", atlasCluster, "--outputFile", filepath.Join(outDir, "out.log")}
	env := []string{"VERIF_MODE=child-cli", "VERIF_ATLAS_SCRIPT=" + scriptPath, "VERIF_ATLAS_LOG=" + reqLog}
	switch {
	case r.KeySupply == 0 || r.KeySupply == 2:
		args = append(args, "--atlasPublicKey", atlasPub)
	case r.KeySupply == 4:
		args = append(args, "--atlasPublicKey="+atlasPub)
	default:
		env = append(env, "ATLAS_PUBLIC_KEY="+atlasPub)
	}
	switch {
	case r.KeySupply == 0 || r.KeySupply == 3:
		args = append(args, "--atlasPrivateKey", r.priv())
	case r.KeySupply == 4 || r.KeySupply == 5:
		args = append(args, "--atlasPrivateKey="+r.priv()) // one argv element
	default:
		env = append(env, "ATLAS_PRIVATE_KEY="+r.priv())
	}
	if r.Window {
		args = append(args, "--atlasLogStartDate", strconv.Itoa(winStart), "--atlasLogEndDate", strconv.Itoa(winEnd))
	}
	if !r.Window {
		// the default window is computed from the clock: two of three such runs live in a local time zone whose offset
		// changed three days ago (forward / backward by an hour) - seven days are 604 800 seconds there as well
		switch (len(r.Hosts) + r.KeySupply + len(r.Cluster.Un)) % 3 {
		case 1:
			env = append(env, "TZ="+writeTZif(filepath.Join(dir, "zone-forward"), time.Now().Unix()-3*86400, 3600, 7200))
		case 2:
			env = append(env, "TZ="+writeTZif(filepath.Join(dir, "zone-back"), time.Now().Unix()-3*86400, -4*3600, -5*3600))
		}
	}
	keyPath := filepath.Join(dir, "enc.key")
	switch atlasKeyStates[r.KeyState] {
	case "valid":
		os.WriteFile(keyPath, []byte(base64.StdEncoding.EncodeToString(harnessKey)), 0o600)
	case "too-short":
		os.WriteFile(keyPath, []byte(base64.StdEncoding.EncodeToString(harnessKey[:32])), 0o600)
	case "not-base64":
		os.WriteFile(keyPath, []byte("this is *not* base64 !!"), 0o600)
	case "directory":
		os.Mkdir(keyPath, 0o755)
	case "parent-missing":
		keyPath = filepath.Join(dir, "no", "such", "dir", "enc.key")
	}
	args = append(args, r.Fl.CLIArgs(keyPath)...)
	o.T0 = time.Now().Unix()
	res, err := runCLI(CLIRun{Bin: c.Self, Args: args, Dir: dir, TmpDir: tmpSpelling(tmp, r.TmpForm), Env: env})
	o.T1 = time.Now().Unix()
	if err != nil {
		return nil, err
	}
	o.Exit, o.Stdout, o.Stderr = res.Exit, string(res.Stdout), string(res.Stderr)
	if res.Signal != "" {
		o.Exit = 128
	}
	if b, err := os.ReadFile(reqLog); err == nil {
		for _, l := range strings.Split(strings.TrimSpace(string(b)), "\n") {
			if l == "" {
				continue
			}
			var q AtlasReq
			if json.Unmarshal([]byte(l), &q) == nil {
				o.Reqs = append(o.Reqs, q)
			}
		}
	}
	o.TmpLeft = listFiles(tmp)
	o.OutFiles = listFiles(outDir)
	if st, err := os.Lstat(keyPath); err == nil && st.Mode().IsRegular() {
		o.KeyFile, _ = os.ReadFile(keyPath)
	}
	return o, nil
}

// ---- oracles shared by the three properties

// checkRequests compares the observed request log with the model (C16).
func checkRequests(r *atlasRun, o *atlasObs) (sig, what string) {
	exp, _, _, where := r.model()
	if where == "srv" {
		// only the cluster phase is modelled; no download may be attempted for anything but the SRV host
		exp = nil
	}
	for i, q := range o.Reqs {
		if q.Scheme != "https" || q.Host != atlasHost {
			return "foreign-endpoint", fmt.Sprintf("request %d goes to %s://%s", i, q.Scheme, q.Host)
		}
		if q.Method != "GET" {
			return "method", fmt.Sprintf("request %d is a %s", i, q.Method)
		}
		if q.Auth != "" && q.Auth != "digest-ok" {
			return "auth-kind:" + q.Auth, fmt.Sprintf("request %d carries an Authorization header that is not a valid digest response for the key pair (%s)", i, q.Auth)
		}
	}
	if where == "srv" {
		return "", ""
	}
	if r.OutFault == 2 && len(o.Reqs) < len(exp) {
		// an output directory that does not exist may be noticed before or after the downloads: the
		// requests sent must be a prefix of the modelled sequence
		exp = exp[:len(o.Reqs)]
	}
	if len(o.Reqs) != len(exp) {
		return "request-count", fmt.Sprintf("%d requests observed, the model expects %d (%s)", len(o.Reqs), len(exp), reqSummary(o.Reqs))
	}
	for i, e := range exp {
		q := o.Reqs[i]
		if q.Kind != e.Kind || (q.Auth != "") != e.Auth {
			return "request-sequence", fmt.Sprintf("request %d is %s(auth=%v), the model expects %s(auth=%v): %s", i, q.Kind, q.Auth != "", e.Kind, e.Auth, reqSummary(o.Reqs))
		}
		switch e.Kind {
		case "cluster":
			if q.Path != "/api/atlas/v2/groups/"+atlasProject+"/clusters/"+atlasCluster || q.Query != "" {
				return "cluster-url", "the cluster description is requested from " + q.URL
			}
		case "log":
			if q.LogHost != e.Host {
				return "host-order", fmt.Sprintf("request %d downloads the log of %s, the model expects %s (hosts in connection-string order, ports stripped): %s", i, q.LogHost, e.Host, reqSummary(o.Reqs))
			}
			if q.Path != "/api/atlas/v2/groups/"+atlasProject+"/clusters/"+e.Host+"/logs/mongodb.gz" {
				return "log-url", "a log is requested from " + q.URL
			}
			v, err := url.ParseQuery(q.Query)
			if err != nil || len(v) != 2 || len(v["startDate"]) != 1 || len(v["endDate"]) != 1 {
				return "window-params", "query string " + q.Query
			}
			s, e1 := strconv.ParseInt(v.Get("startDate"), 10, 64)
			en, e2 := strconv.ParseInt(v.Get("endDate"), 10, 64)
			if e1 != nil || e2 != nil {
				return "window-params", "query string " + q.Query
			}
			if r.Window {
				if s != winStart || en != winEnd {
					return "window-flags", fmt.Sprintf("startDate=%d endDate=%d requested, the flags say %d and %d", s, en, winStart, winEnd)
				}
			} else {
				if en < o.T0 || en > o.T1 || en-s != 7*24*3600 || s >= en {
					return "window-default", fmt.Sprintf("startDate=%d endDate=%d requested without window flags; now in [%d,%d]", s, en, o.T0, o.T1)
				}
			}
		}
	}
	return "", ""
}

func reqSummary(rs []AtlasReq) string {
	var p []string
	for _, q := range rs {
		a := ""
		if q.Auth != "" {
			a = "+" + q.Auth
		}
		h := q.LogHost
		if i := strings.IndexByte(h, '.'); i > 0 {
			h = h[:i]
		}
		p = append(p, q.Kind+a+"("+h+")→"+q.Answer)
	}
	return strings.Join(p, " ")
}

// atlasPrivPlain: the shape a real Atlas private key has (a UUID).  The other key is full of characters that change under
// every encoding - and that make a URL built from it unparsable, which would hide a key that ends up in a request line.
const atlasPrivPlain = "3f9a1c7e-52b4-4d68-9e0a-7b1c2d3e4f50"

// priv: which of the two private keys a run uses (alternating with the script, so both meet every kind of script).
func (r *atlasRun) priv() string {
	if (len(r.Hosts)+r.KeySupply+len(r.Cluster.Au)+len(r.Cluster.Un))%2 == 1 {
		return atlasPrivPlain
	}
	return atlasPriv
}

// writeTZif writes a version-1 TZif file describing a zone whose UTC offset changes from `before` to `after` seconds at
// the instant `at`, and returns its path (an absolute path in TZ is read as such a file).
func writeTZif(path string, at int64, before, after int) string {
	be32 := func(v int64) []byte { return []byte{byte(v >> 24), byte(v >> 16), byte(v >> 8), byte(v)} }
	b := append([]byte("TZif"), make([]byte, 16)...)
	for _, n := range []int64{0, 0, 0, 1, 2, 8} { // isut, isstd, leap, time, type, char counts
		b = append(b, be32(n)...)
	}
	b = append(b, be32(at)...)
	b = append(b, 1)
	b = append(b, be32(int64(int32(before)))...)
	b = append(b, 0, 0)
	b = append(b, be32(int64(int32(after)))...)
	b = append(b, 1, 4)
	b = append(b, []byte("STD\x00DST\x00")...)
	os.WriteFile(path, b, 0o644)
	return path
}

// keyForms: the encodings of the private keys that must never show up anywhere.
func keyForms() map[string]string {
	m := map[string]string{}
	for tag, k := range map[string]string{"": atlasPriv, "plain-key:": atlasPrivPlain} {
		m[tag+"verbatim"] = k
		m[tag+"url-encoded"] = url.QueryEscape(k)
		m[tag+"path-escaped"] = url.PathEscape(k)
		m[tag+"base64"] = base64.StdEncoding.EncodeToString([]byte(k))
		m[tag+"base64url"] = base64.URLEncoding.EncodeToString([]byte(k))
		m[tag+"basic-auth-pair"] = base64.StdEncoding.EncodeToString([]byte(atlasPub + ":" + k))
		m[tag+"json-escaped"] = strings.Trim(func() string { b, _ := json.Marshal(k); return string(b) }(), `"`)
	}
	return m
}

func findKey(hay string) string {
	forms := keyForms()
	names := make([]string, 0, len(forms))
	for n := range forms {
		names = append(names, n)
	}
	sort.Strings(names)
	for _, n := range names {
		if strings.Contains(hay, forms[n]) {
			return n
		}
	}
	return ""
}
