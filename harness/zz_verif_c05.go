//go:build verif

package main

// C05 — type-aware placeholders: in placeholder mode every redacted leaf holds the constant
// placeholder of its own class, and that placeholder is a valid member of the class.

import (
	"encoding/base64"
	"fmt"
	"regexp"
	"strings"
	"time"
)

// written from the WHATWG HTML "valid e-mail address" production, not from the repository
var c05Email = regexp.MustCompile("^[a-zA-Z0-9.!#$%&'*+/=?^_`{|}~-]+@[a-zA-Z0-9](?:[a-zA-Z0-9-]{0,61}[a-zA-Z0-9])?(?:\\.[a-zA-Z0-9](?:[a-zA-Z0-9-]{0,61}[a-zA-Z0-9])?)*$")
var c05Oid = regexp.MustCompile(`^[0-9a-fA-F]{24}$`)

// c05Valid: is the output leaf a valid placeholder for the class (under the flags)?  "" = yes.
func c05Valid(class string, o *JNode, fl Flags) string {
	switch class {
	case ClsNum:
		if o.Kind != JNum {
			return "number→" + o.Kind.String()
		}
		if o.Num != "0" {
			return "number-not-0"
		}
		return ""
	case ClsBool:
		if o.Kind != JBool {
			return "boolean→" + o.Kind.String()
		}
		if o.Bool {
			return "boolean-not-false"
		}
		return ""
	}
	if o.Kind != JStr {
		return "string→" + o.Kind.String()
	}
	switch class {
	case ClsStr:
		if o.Str != fl.Replacement() {
			return "not-the-replacement-text"
		}
	case ClsEmail:
		if len(o.Str) < 3 || len(o.Str) > 254 || !c05Email.MatchString(o.Str) {
			return "not-email-shaped"
		}
	case ClsDate:
		if _, err := time.Parse(time.RFC3339Nano, o.Str); err != nil {
			return "not-an-ISO-8601-instant"
		}
	case ClsOid:
		if !c05Oid.MatchString(o.Str) {
			return "not-24-hex-digits"
		}
	case ClsBin:
		if _, err := base64.StdEncoding.Strict().DecodeString(o.Str); err != nil || o.Str == "" {
			return "not-valid-base64"
		}
	}
	return ""
}

var c05Replacements = []Flags{
	{},
	{R: `x"y\z`},
	{R: "ßé日本 😀"},
	{R: "with space"},
	{REmpty: true},
	{R: "<&> line1\nline2\ttab \x1b[31mred\x1b[0m del\x7f bel\a vt\v nonprintable\U000e0001 ls\u2028"},
	// every backslash starts something a string-unquoting routine understands (Go / JSON / C escapes), plus printf verbs
	{R: `C:\temp\new \u0041\x41 \\ %s %d 100%%`},
	{R: customReplacement},
	{R: "x@y.zz"},
	{R: "$dollar"},
	{R: "2024-01-01T00:00:00Z"},
}

func c05FlagSets(c *Ctx, ns string) (main []Flags, outer []Flags) {
	reps := c05Replacements[:7]
	if c.Thorough() {
		reps = c05Replacements
	}
	for _, r := range reps {
		for m := 0; m < 4; m++ {
			f := r
			f.N, f.B = m&1 != 0, m&2 != 0
			main = append(main, f)
		}
	}
	// every replacement text next to the namespace flag and next to the field-name flag: those modes derive their
	// pseudonyms from the same text and must leave the value placeholder exactly as configured
	for _, r := range append(append([]Flags{}, reps...), Flags{R: "n.a. $x"}) {
		w, f := r, r
		w.W = true
		f.F = []string{ns}
		main = append(main, w, f)
	}
	// field-name / namespace / IP modes must not change which placeholder a leaf gets
	main = append(main, Flags{N: true, B: true, F: []string{ns}}, Flags{W: true, I: true, R: `x"y\z`, F: []string{ns}}, Flags{W: true, I: true, N: true})
	outer = []Flags{{N: true, B: true}, {R: `x"y\z`}, {REmpty: true, N: true, F: []string{ns}}, {R: "ßé日本 😀", B: true, W: true}}
	return
}

type c05Problem struct {
	node    *LNode
	problem string
	got     string
}

func c05Problems(sc *sweepCase, fl Flags, j *JNode, first map[string]string) []c05Problem {
	var ps []c05Problem
	for _, s := range sc.C.Secrets {
		if s.Lab.K != LabSecret {
			continue
		}
		cls := s.Lab.Class
		if (cls == ClsNum && !fl.N) || (cls == ClsBool && !fl.B) {
			continue
		}
		o := follow(j, sc.Path(s))
		if o == nil {
			continue // the leaf no longer exists at its position: C03's concern
		}
		if p := c05Valid(cls, o, fl); p != "" {
			// tell "kept the original" from "another invalid value"
			if o.Kind == JStr && s.Kind == JStr && o.Str == s.Str && s.Str != "" {
				p = "original-kept"
			}
			ps = append(ps, c05Problem{s, p, trunc(jshow(o), 80)})
			continue
		}
		if o.Kind == JStr {
			if s.Str != "" && o.Str == s.Str && cls != ClsStr {
				ps = append(ps, c05Problem{s, "original-kept", trunc(o.Str, 80)})
				continue
			}
			// one constant per class (and replacement text)
			key := cls + "|" + fl.Replacement()
			if cls != ClsStr {
				key = cls
			}
			if f, ok := first[key]; !ok {
				first[key] = o.Str
			} else if f != o.Str {
				ps = append(ps, c05Problem{s, "placeholder-not-constant", trunc(o.Str, 60) + " vs " + trunc(f, 60)})
			}
		}
	}
	// $binary.subType next to a redacted payload is untouched
	sc.C.Cmd.Walk(nil, func(_ []string, n *LNode) {
		if n.Kind == JObj && len(n.Keys) == 2 {
			if st := n.Get("subType"); st != nil && n.Get("base64") != nil && st.Lab.K == LabKeep {
				if o := follow(j, sc.Path(st)); o != nil && (o.Kind != JStr || o.Str != st.Str) {
					ps = append(ps, c05Problem{st, "subType-changed", trunc(jshow(o), 40)})
				}
			}
		}
	})
	return ps
}

func jshow(o *JNode) string {
	switch o.Kind {
	case JStr:
		return fmt.Sprintf("%q", o.Str)
	case JNum:
		return o.Num
	case JBool:
		return fmt.Sprint(o.Bool)
	case JNull:
		return "null"
	}
	return o.Kind.String()
}

func c05Run(c *Ctx) {
	ns := "dbZq1.coQx7"
	mainF, outerF := c05FlagSets(c, ns)
	layers := []sweepLayer{
		{"L0", GenOpts{}, 0, mainF},
		{"L1", GenOpts{OneGate: true, LeafSet: 1}, 1, mainF},
	}
	if c.Thorough() {
		layers = append(layers, sweepLayer{"L2", GenOpts{OneGate: true, LeafSet: 1}, 2, outerF})
	} else {
		layers = append(layers, sweepLayer{"L2", GenOpts{OneGate: true, LeafSet: 2, Slots: []int{0, 4, 12, 19}}, 2, outerF[:2]})
	}
	layers = append(layers, sweepLayer{"scale", GenOpts{Scale: true, ScaleThorough: c.Thorough()}, 0, outerF[:2]})
	// search stages as the root: up to 2 (thorough 3) non-default search operators BELOW $search / $searchMeta
	layers = append(layers, rootedLayers(c.Thorough(), outerF[:2])...)
	first := map[string]string{}
	var corpus []string
	sweep(c, layers, func(sc *sweepCase) bool {
		if !sc.C.InClaim || len(sc.C.Secrets) == 0 {
			return false
		}
		c.Distinct(sc.Line)
		if sc.Layer == "L0" && sc.C.Gate == 0 && sc.C.Container == 0 {
			corpus = append(corpus, sc.Line)
		}
		if c.P.Evaluations < 100 {
			c.Sample(map[string]any{"slot": sc.C.SlotName, "productions": sc.C.Prods, "line": trunc(sc.Line, 900)})
		}
		return true
	}, func(sc *sweepCase, fl Flags, out string, ok bool, pv any) {
		if pv != nil || !ok {
			c.Count("skipped_panics_or_rejected", 1)
			return
		}
		j, err := ParseJSON([]byte(out))
		if err != nil {
			// A line that does not parse is C03's concern - unless it is the replacement text that breaks it: the
			// same line under the default replacement parses, so the placeholder was not written as a JSON string
			// holding exactly the configured text.
			d := fl
			d.R, d.REmpty = "", false
			d.Apply()
			o2, ok2, _ := redactLine(sc.Line)
			fl.Apply()
			if _, e2 := ParseJSON([]byte(o2)); ok2 && e2 == nil && (fl.R != "" || fl.REmpty) {
				line := sc.Line
				c.Violate("ph:string:replacement-text-breaks-the-line", fmt.Sprintf("with --replacement %q the emitted line is not valid JSON (%v), with the default replacement it is; slot %s; output: %s", fl.Replacement(), err, sc.C.SlotName, trunc(out, 500)),
					int64(len(line)), replayOf(sc, fl, map[string]any{"output": out}),
					func() bool {
						fl.Apply()
						o, ok, _ := redactLine(line)
						_, e := ParseJSON([]byte(o))
						return ok && e != nil
					})
				return
			}
			c.Count("skipped_unparsable_output", 1) // C03's concern
			return
		}
		ps := c05Problems(sc, fl, j, first)
		if len(ps) == 0 {
			c.Outcome("all-placeholders-valid")
			return
		}
		c.Outcome("problem")
		for _, p := range ps {
			sig := "ph:" + p.node.Lab.Class + ":" + p.problem
			switch p.problem {
			case "original-kept", "subType-changed":
				sig += ":" + coarseLoc(sc.Loc(p.node))
			}
			if p.node.Lab.K != LabSecret {
				sig = "ph:" + p.problem + ":" + coarseLoc(sc.Loc(p.node))
			}
			line, node, prob := sc.Line, p.node, p.problem
			c.Violate(sig, fmt.Sprintf("the %s literal %s at %s (slot %s) is emitted as %s: %s; flags [%s]; input: %s", node.Lab.Class, trunc(node.JSON(), 60), sc.Loc(node), sc.C.SlotName, p.got, prob, fl, trunc(line, 500)),
				int64(len(line)), replayOf(sc, fl, map[string]any{"output": out, "problem": prob}),
				func() bool {
					fl.Apply()
					o, ok, _ := redactLine(line)
					if !ok {
						return false
					}
					jj, err := ParseJSON([]byte(o))
					if err != nil {
						return false
					}
					f2 := map[string]string{}
					if prob == "placeholder-not-constant" {
						for k, v := range first {
							f2[k] = v
						}
					}
					for _, q := range c05Problems(sc, fl, jj, f2) {
						if q.node == node {
							return true
						}
					}
					return false
				})
		}
	})
	if c.Shard == 0 {
		c05Collisions(c, first)
	}
	for k, v := range first {
		c.Fact("placeholder["+k+"]", v)
	}
	// arbitrary --replacement text survives argv -> output: the pristine CLI over the L0 corpus
	cliCorpusPass(c, "L0", corpus, mainF, true)
}

// collisionGroups enumerates the groups of lines in which ONE text occurs in two class contexts: texts (an ObjectId-,
// date-, base64-, e-mail-shaped and a plain one, each short and — for the shapes that allow it — 88 and 300 bytes
// long) x every ordered pair of contexts (plain, under $eq, in an $in list, $oid, $date, $binary) x 4 placements
// (one document, query + update of one command, two pipeline stages, two consecutive lines) x {two field names,
// the same field name at both places}.
func collisionGroups(yield func(desc string, cases []*sweepCase)) {
	n := 0
	b64 := func(k int) string {
		return base64.StdEncoding.EncodeToString([]byte(fmt.Sprintf("collision payload %06d %s", n, strings.Repeat("pad.", k))))
	}
	texts := []struct {
		email bool
		f     func() string
	}{
		{false, func() string { n++; return fmt.Sprintf("5f1e2d3c4b5a69788796%04x", n) }},
		{false, func() string { n++; return fmt.Sprintf("2031-07-09T11:%02d:%02d.456Z", n/60%60, n%60) }},
		{false, func() string { n++; return fmt.Sprintf("Y29sbGlzaW9uIHRleHQg%04d", n%10000) }},
		{true, func() string { n++; return fmt.Sprintf("user%d@mail.example.com", n) }},
		{false, func() string { n++; return fmt.Sprintf("plain text %d", n) }},
		{false, func() string { n++; return b64(10) }},                 // 88 characters, valid base64 and an ordinary string
		{false, func() string { n++; return b64(50) }},                 // ~300 characters
		{false, func() string { n++; return fmt.Sprintf("%064x", n) }}, // 64 hex digits
	}
	type ctxDef struct {
		name  string
		class string // "" = by shape of the text
		wrap  func(leaf *LNode) *LNode
	}
	ctxs := []ctxDef{
		{"plain", "", func(l *LNode) *LNode { return l }},
		{"$oid", ClsOid, func(l *LNode) *LNode { return LO("$oid", l) }},
		{"$date", ClsDate, func(l *LNode) *LNode { return LO("$date", l) }},
		{"$binary", ClsBin, func(l *LNode) *LNode { return LO("$binary", LO("base64", l, "subType", LS("00").Keep())) }},
		{"$eq", "", func(l *LNode) *LNode { return LO("$eq", l) }},
		{"$in", "", func(l *LNode) *LNode { return LO("$in", LA(l)) }},
	}
	mk := func(email bool, text string, cd ctxDef) (*LNode, *LNode) {
		cls := cd.class
		if cls == "" {
			cls = ClsStr
			if email {
				cls = ClsEmail
			}
		}
		leaf := LS(text).With(Label{K: LabSecret, Class: cls})
		return cd.wrap(leaf), leaf
	}
	line := func(cmd *LNode) *LNode {
		cmd.Zone = true
		return LO("t", LO("$date", LS("2024-05-01T10:00:00.123+00:00")), "s", LS("I"), "c", LS("COMMAND"), "id", LN("51803"), "ctx", LS("conn7"), "msg", LS("Slow query"),
			"attr", LO("type", LS("command"), "ns", LS("dbZq1.coQx7"), "command", cmd, "durationMillis", LN("3")))
	}
	for _, tx := range texts {
		for a, ca := range ctxs {
			for b, cb := range ctxs {
				if a == b || (ca.class == "" && cb.class == "") {
					continue // two contexts of the same class are no collision
				}
				for place := 0; place < 4; place++ {
					for same := 0; same < 2; same++ {
						if place == 2 && same == 1 && (cb.name == "$eq" || cb.name == "$in") {
							continue // not an expression
						}
						text := tx.f()
						va, la := mk(tx.email, text, ca)
						vb, lb := mk(tx.email, text, cb)
						na, nb := "fa", "fb"
						if same == 1 {
							nb = "fa"
						}
						var cases []*sweepCase
						add := func(cmd *LNode, secrets ...*LNode) {
							root := line(cmd)
							resolveLabels(root, false, false)
							cases = append(cases, &sweepCase{C: &Case{Root: root, Cmd: cmd, Secrets: secrets, SlotName: "collision"}, Line: root.JSON(), Layer: "collision"})
						}
						switch place {
						case 0:
							if same == 1 {
								add(LO("find", LS("coQx7"), "filter", LO(Fn(na), va, Fn("sub"), LO(Fn(nb), vb)), "$db", LS("dbZq1")), la, lb)
							} else {
								add(LO("find", LS("coQx7"), "filter", LO(Fn(na), va, Fn(nb), vb), "$db", LS("dbZq1")), la, lb)
							}
						case 1:
							add(LO("findAndModify", LS("coQx7"), "query", LO(Fn(na), va), "update", LO("$set", LO(Fn(nb), vb)), "$db", LS("dbZq1")), la, lb)
						case 2:
							add(LO("aggregate", LS("coQx7"), "pipeline", LA(LO("$match", LO(Fn(na), va)), LO("$addFields", LO(Fn(nb), LO("$ifNull", LA(LS("$x").DC(), vb))))), "$db", LS("dbZq1")), la, lb)
						default:
							add(LO("find", LS("coQx7"), "filter", LO(Fn(na), va), "$db", LS("dbZq1")), la)
							add(LO("insert", LS("coQx7"), "documents", LA(LO(Fn(nb), vb)), "$db", LS("dbZq1")), lb)
						}
						names := "two field names"
						if same == 1 {
							names = "the same field name"
						}
						yield(fmt.Sprintf("the text %q as %s then as %s (placement %d, %s)", trunc(text, 60), ca.name, cb.name, place, names), cases)
					}
				}
			}
		}
	}
}

func c05Collisions(c *Ctx, first map[string]string) {
	fsets := []Flags{{}, {R: `x"y\z`}, {N: true, B: true, F: []string{"dbZq1.coQx7"}}}
	collisionGroups(func(desc string, cases []*sweepCase) {
		for _, fl := range fsets {
			eval := func() (string, *LNode, string, string) {
				fl.Apply()
				for _, sc := range cases {
					out, ok, pv := redactLine(sc.Line)
					if pv != nil || !ok {
						return "", nil, "", ""
					}
					j, err := ParseJSON([]byte(out))
					if err != nil {
						return "", nil, "", ""
					}
					for _, p := range c05Problems(sc, fl, j, map[string]string{}) {
						return p.problem, p.node, p.got, sc.Line
					}
				}
				return "", nil, "", ""
			}
			prob, node, got, ln := eval()
			c.Eval(int64(len(cases)))
			c.Distinct(cases[0].Line)
			c.Count("collision_cases", 1)
			if prob == "" {
				c.Outcome("all-placeholders-valid")
				continue
			}
			c.Outcome("problem")
			var lines []string
			for _, sc := range cases {
				lines = append(lines, sc.Line)
			}
			c.Violate("ph-collision:"+node.Lab.Class+":"+prob, fmt.Sprintf("%s: the %s leaf is emitted as %s (%s); flags [%s]; line: %s", desc, node.Lab.Class, got, prob, fl, trunc(ln, 400)),
				int64(len(ln)), map[string]any{"kind": "collision", "lines": lines, "flags": fl.String(), "desc": desc},
				func() bool { p, _, _, _ := eval(); return p != "" })
		}
	})
	Flags{}.Apply()
}

func c05Post(c *Ctx, m *Part) {
	for k, vs := range m.Facts {
		if strings.HasPrefix(k, "placeholder[") && len(vs) > 1 {
			c.Violate("ph:not-constant-across-processes:"+k, fmt.Sprintf("worker processes observed different placeholders for %s: %q", k, vs), 0, map[string]any{"kind": "facts", "key": k, "values": vs}, nil)
		}
	}
}

func init() {
	register(&PropDef{
		ID: "C05", Level: "exploration",
		Rule:        "lines of G inside the claim at 0 deviations (all gates x containers x slots x 23 leaf kinds), <=1 non-default production over the full vocabulary and <=2 (quick: 4 slots; thorough: all) x {replacement alphabet: default, quotes+backslash, non-ASCII+astral, with space, empty, '<&>' with newline and tab (thorough: + custom, e-mail-shaped, '$'-leading, date-looking)} x N x B plus field-name / namespace / IP modes; at every SECRET leaf that still exists in the output the value must be valid for the leaf's class ($date: RFC 3339 instant; $oid: 24 hex digits; $binary.base64: strict base64, subType untouched; e-mail-shaped: WHATWG e-mail production; other strings: decoded text == replacement exactly; numbers under N: literal 0; booleans under B: false), must not be the original, and must be one constant per class across lines, flag sets and worker processes; plus one run of the pristine CLI per flag set over the 0-deviation corpus compared line by line with the in-process output (argv -> output). distinct = distinct input lines with at least one SECRET leaf" + scaleRule + "; collision groups: 8 texts (short and long) x every ordered pair of contexts {plain, $eq, $in, $oid, $date, $binary} of different class x 4 placements x {two field names, one field name}" + rootedRule,
		Assumptions: []string{"the label table of G (GRAMMAR.md) is the trusted base", "encrypt and selective modes are outside the property", "a SECRET leaf that no longer exists at its position is C03's concern"},
		Run:         c05Run, Post: c05Post,
	})
}
