//go:build verif

package main

// Grammar sweeps shared by the grammar-driven checks: layers (deviation bounds), flag sets,
// positional lookup between the labelled input tree and the parsed output tree.

import (
	"encoding/base64"
	"fmt"
	"math/big"
	"os"
	"path/filepath"
	"strings"
)

const customReplacement = `<V "x" \ é日>`

// flagSets enumerates the product of the given flag letters (subset of "NBIWRFY").
func flagSets(letters string, ns string) []Flags {
	n := len(letters)
	var out []Flags
	for m := 0; m < 1<<n; m++ {
		var f Flags
		for i, l := range letters {
			if m&(1<<i) == 0 {
				continue
			}
			switch l {
			case 'N':
				f.N = true
			case 'B':
				f.B = true
			case 'I':
				f.I = true
			case 'W':
				f.W = true
			case 'R':
				f.R = customReplacement
			case 'F':
				f.F = []string{ns}
			case 'Y':
				f.Y = true
			}
		}
		out = append(out, f)
	}
	return out
}

// coveringFlags: 16 flag sets over NBIWRFY in which every pair of flags takes all four value
// combinations (pairwise covering; verified at start-up).
func coveringFlags(ns string) []Flags {
	all := flagSets("NBIWRFY", ns)
	// rows of an orthogonal-array style construction: pick masks m where bits are linear
	// functions of 4 base bits
	var out []Flags
	for b := 0; b < 16; b++ {
		b0, b1, b2, b3 := b&1, (b>>1)&1, (b>>2)&1, (b>>3)&1
		bits := []int{b0, b1, b2, b3, b0 ^ b1, b1 ^ b2 ^ b3, b0 ^ b2 ^ b3}
		m := 0
		for i, v := range bits {
			m |= v << i
		}
		out = append(out, all[m])
	}
	return out
}

// coveringFlags8: 8 flag sets, still pairwise covering (orthogonal array of strength 2).
func coveringFlags8(ns string) []Flags {
	all := flagSets("NBIWRFY", ns)
	var out []Flags
	for b := 0; b < 8; b++ {
		b0, b1, b2 := b&1, (b>>1)&1, (b>>2)&1
		bits := []int{b0, b1, b2, b0 ^ b1, b0 ^ b2, b1 ^ b2, b0 ^ b1 ^ b2}
		m := 0
		for i, v := range bits {
			m |= v << i
		}
		out = append(out, all[m])
	}
	return out
}

func checkPairwise(fs []Flags) bool {
	get := func(f Flags, i int) bool {
		switch i {
		case 0:
			return f.N
		case 1:
			return f.B
		case 2:
			return f.I
		case 3:
			return f.W
		case 4:
			return f.R != ""
		case 5:
			return len(f.F) > 0
		default:
			return f.Y
		}
	}
	for i := 0; i < 7; i++ {
		for j := i + 1; j < 7; j++ {
			seen := map[[2]bool]bool{}
			for _, f := range fs {
				seen[[2]bool{get(f, i), get(f, j)}] = true
			}
			if len(seen) != 4 {
				return false
			}
		}
	}
	return true
}

type sweepLayer struct {
	Name  string
	O     GenOpts
	Bound int
	Flags []Flags
}

// rootedLayers: layers whose deviation budget starts below a search stage (the default derivation reaches the stage
// at no cost), so that chains of two (thorough: three) search operators - embeddedDocument / compound / facet operator
// around every other operator - meet every leaf class.
func rootedLayers(thorough bool, fl []Flags) []sweepLayer {
	// quick: 2 operators below $search, 1 below $searchMeta; thorough: 2 below both; reduced leaf alphabet (three operators
	// deep, or the full leaf alphabet, cost hours for little: the aliasing defect the layer was built for needs two)
	var ls []sweepLayer
	for _, r := range []string{"$search", "$searchMeta"} {
		bb, leaves := 2, 1
		if r == "$searchMeta" && !thorough {
			bb = 1
		}
		_ = leaves
		ls = append(ls, sweepLayer{"rooted:" + r, GenOpts{OneGate: true, LeafSet: leaves, Slots: []int{4}, RootStage: r}, bb, fl})
	}
	return ls
}

const rootedRule = "; search stages as the root: every derivation with <=2 non-default search operators below $search and <=1 (thorough 2) below $searchMeta (the deviation budget starts below the stage), reduced leaf alphabet incl. $date / $oid / $binary"

type sweepCase struct {
	C     *Case
	Line  string
	Layer string
	Trace []int
	paths map[*LNode][]int
}

// indexPaths maps every node of the tree to its index path from the root.
func indexPaths(root *LNode) map[*LNode][]int {
	m := map[*LNode][]int{}
	var rec func(n *LNode, p []int)
	rec = func(n *LNode, p []int) {
		m[n] = append([]int(nil), p...)
		for i, k := range n.Kids {
			rec(k, append(p, i))
		}
	}
	rec(root, nil)
	return m
}

func (sc *sweepCase) Path(n *LNode) []int {
	if sc.paths == nil {
		sc.paths = indexPaths(sc.C.Root)
	}
	return sc.paths[n]
}

// Loc: signature path of a node below the command document that carries the focus, or (for nodes in another
// document of the line) below the line root.
func (sc *sweepCase) Loc(n *LNode) string {
	if p := sigPath(sc.C.Cmd, n); p != "" || n == sc.C.Cmd {
		return p
	}
	return sigPath(sc.C.Root, n)
}

// follow walks an index path in a parsed tree; nil if the shape differs.
func follow(j *JNode, p []int) *JNode {
	for _, i := range p {
		if j == nil || (j.Kind != JObj && j.Kind != JArr) || i >= len(j.Kids) {
			return nil
		}
		j = j.Kids[i]
	}
	return j
}

// sweep enumerates every layer and calls each(case, flags, out, ok, panicValue).
// perCase (may be nil) is called once per case before the flag loop; returning false skips the case.
func sweep(c *Ctx, layers []sweepLayer, perCase func(sc *sweepCase) bool, each func(sc *sweepCase, fl Flags, out string, ok bool, pv any)) {
	for _, L := range layers {
		var sc *sweepCase
		body := func(x *X) {
			var cs *Case
			if L.O.Scale {
				cs = genScaleCase(x, L.O)
			} else {
				cs = genCase(x, L.O)
			}
			sc = &sweepCase{C: cs, Layer: L.Name}
		}
		st := Explore(body, ExploreOpts{Bound: L.Bound, ShardDepth: 6, Shard: c.Shard, NShards: c.NShards}, func(x *X) {
			sc.Line = sc.C.Root.JSON()
			sc.Trace = x.Trace()
			c.Count("cases_"+L.Name, 1)
			if perCase != nil && !perCase(sc) {
				return
			}
			for _, fl := range L.Flags {
				fl.Apply()
				out, ok, pv := redactLine(sc.Line)
				c.Eval(1)
				if each != nil {
					each(sc, fl, out, ok, pv)
				}
				if L.O.Spellings && pv == nil {
					spellingInvariance(c, sc, fl, out, ok)
				}
			}
		})
		c.Count("choice_points_"+L.Name, st.ChoicePoints)
		c.Count("max:depth_"+L.Name, int64(st.MaxDepth))
		c.Count("max:deviations_"+L.Name, int64(st.MaxDev))
	}
	Flags{}.Apply()
}

// jsonSpellings: the other ways the same line can be written (RFC 8259 leaves them to the writer): 1 = '/' and non-ASCII
// characters as \u escapes (surrogate pairs), 2 = EVERY character of every key and string as a \u escape, 3 = white space
// around every token, 4 = upper-case hex digits and escapes of a few ASCII letters and '$'
var jsonSpellings = []string{"", "non-ASCII and slash escaped", "every character escaped", "white space between tokens", "upper-case hex escapes of some ASCII"}

// spellingInvariance: the tool parses and re-serialises, so what it emits must not depend on how the input spelled the
// same JSON text.  Anything that looks at the raw bytes of a line (a pre-filter, a fast path, a substring test) does.
func spellingInvariance(c *Ctx, sc *sweepCase, fl Flags, out string, ok bool) {
	for st := 1; st < len(jsonSpellings); st++ {
		alt := sc.C.Root.JSONStyle(st)
		if alt == sc.Line {
			continue
		}
		o2, ok2, pv2 := redactLine(alt)
		c.Eval(1)
		if pv2 != nil {
			c.Count("skipped_panics", 1)
			continue
		}
		if ok2 == ok && o2 == out {
			continue
		}
		line, style := sc.Line, st
		c.Violate(fmt.Sprintf("spelling:output-depends-on-how-the-line-is-written:%d", st), fmt.Sprintf("the same line written with %s gives a different result under flags [%s]; slot %s; canonical input: %s | other spelling: %s | output: %s | output for the other spelling: %s", jsonSpellings[st], fl, sc.C.SlotName, trunc(line, 300), trunc(alt, 300), trunc(out, 300), trunc(o2, 300)),
			int64(len(line)), replayOf(sc, fl, map[string]any{"other_spelling": alt, "output": out, "output_other": o2}),
			func() bool {
				fl.Apply()
				a, oka, _ := redactLine(line)
				b, okb, _ := redactLine(sc.C.Root.JSONStyle(style))
				return a != b || oka != okb
			})
	}
}

func numEqual(a, b string) bool {
	x, _, err1 := big.ParseFloat(a, 10, 2000, big.ToNearestEven)
	y, _, err2 := big.ParseFloat(b, 10, 2000, big.ToNearestEven)
	if err1 != nil || err2 != nil {
		return a == b
	}
	return x.Cmp(y) == 0
}

func replayOf(sc *sweepCase, fl Flags, extra map[string]any) map[string]any {
	m := map[string]any{"kind": "redact", "layer": sc.Layer, "choices": sc.Trace, "slot": sc.C.SlotName, "productions": sc.C.Prods,
		"gate": fmt.Sprintf("%s/%s", gates[sc.C.Gate].c, gates[sc.C.Gate].msg), "container": sc.C.Container, "flags": fl.String(), "input": sc.Line}
	for k, v := range extra {
		m[k] = v
	}
	return m
}

func writeKeyFile(dir string) string {
	p := filepath.Join(dir, "harness.key")
	os.WriteFile(p, []byte(base64.StdEncoding.EncodeToString(harnessKey)), 0o600)
	return p
}

// cliCorpusPass runs the pristine CLI once per flag set over a corpus file and compares its output,
// line by line, with the in-process results (DESIGN.md 2.6).  Lines that panic in-process are left
// out.  Returns the number of lines compared.
func cliCorpusPass(c *Ctx, name string, lines []string, fsets []Flags, shardFlags bool) {
	dir := freshDir(c.Scratch, "corpus_"+name)
	key := writeKeyFile(dir)
	for fi, fl := range fsets {
		if shardFlags && !c.Mine(int64(fi)) {
			continue
		}
		fl.Apply()
		var in strings.Builder
		var want []string
		for _, l := range lines {
			out, ok, pv := redactLine(l)
			if pv != nil {
				continue
			}
			in.WriteString(l)
			in.WriteByte('\n')
			if ok {
				want = append(want, out)
			}
		}
		inPath := filepath.Join(dir, "corpus.log")
		os.WriteFile(inPath, []byte(in.String()), 0o644)
		args := append([]string{"redact", inPath}, fl.CLIArgs(key)...)
		toFile := fl.Y || fi%2 == 1
		if toFile {
			// what an earlier, larger run left at the output path
			os.WriteFile(filepath.Join(dir, "out.log"), []byte(strings.Repeat("{\"stale\":\"line of an earlier run\"}\n", (4*in.Len()+200000)/40)), 0o644)
			args = append(args, "--outputFile", filepath.Join(dir, "out.log"))
		}
		run := CLIRun{Bin: c.CLI, Args: args, Dir: dir}
		if fi%3 == 2 {
			run.Env = []string{"LANG=en_US.UTF-8", "LC_ALL=en_US.UTF-8"} // the others run under LANG=C
		}
		res, err := runCLI(run)
		if err != nil {
			c.HarnessError("CLI corpus run: %v", err)
			return
		}
		got := string(res.Stdout)
		if toFile {
			b, _ := os.ReadFile(filepath.Join(dir, "out.log"))
			got = string(b)
		}
		c.Count("cli_runs", 1)
		if res.Exit != 0 {
			c.Violate("cli-wiring:exit", fmt.Sprintf("the CLI exits %d on the %s corpus under flags %s: %s", res.Exit, name, fl, trunc(string(res.Stderr), 400)), 0,
				map[string]any{"kind": "cli-corpus", "flags": fl.String(), "args": args}, nil)
			continue
		}
		gl := strings.Split(strings.TrimSuffix(got, "\n"), "\n")
		if got == "" {
			gl = nil
		}
		c.Count("cli_lines_compared", int64(len(want)))
		if len(gl) != len(want) {
			c.Violate("cli-wiring:line-count", fmt.Sprintf("the CLI emits %d lines, in-process redaction %d, for the %s corpus under flags %s", len(gl), len(want), name, fl), 0,
				map[string]any{"kind": "cli-corpus", "flags": fl.String(), "args": args}, nil)
			continue
		}
		for i := range want {
			if gl[i] != want[i] {
				c.Violate("cli-wiring:differs", fmt.Sprintf("under flags %s the CLI output differs from the in-process output (the flag wiring does not do what the setters do)", fl), int64(len(want[i])),
					map[string]any{"kind": "cli-corpus", "flags": fl.String(), "args": args, "cli": gl[i], "inproc": want[i]}, nil)
				break
			}
		}
	}
	Flags{}.Apply()
}
