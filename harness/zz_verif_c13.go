//go:build verif

package main

// C13 — pseudonyms are a stable, collision-free, component-wise function of the name.

import (
	"crypto/sha256"
	"fmt"
	"os"
	"path/filepath"
	"regexp"
	"sort"
	"strings"
)

var c13Alphabet = []string{
	"a", "b", "c", "d", "e", "f", "g", "h", "i", "j", "k", "l", "m", "n", "o", "p", "q", "r", "s", "t", "u", "v", "w", "x", "y", "z",
	"0", "1", "2", "3", "4", "5", "6", "7", "8", "9", "_", "-", "é", "日",
}

func c13Dictionary(thorough bool) []string {
	var d []string
	d = append(d, "")
	for _, a := range c13Alphabet {
		d = append(d, a)
		for _, b := range c13Alphabet {
			d = append(d, a+b)
			for _, c := range c13Alphabet {
				d = append(d, a+b+c)
			}
		}
	}
	n := 10000
	if thorough {
		n = 200000
	}
	for i := 0; i < n; i++ {
		d = append(d, fmt.Sprintf("field_%d_Name", i), fmt.Sprintf("Coll%dX", i))
	}
	// long names that differ only beyond position k (a pseudonym computed from a prefix or a window of the
	// name collides here), and names that differ only in length
	for _, k := range []int{7, 8, 15, 16, 23, 24, 31, 32, 33, 47, 48, 63, 64, 65, 127, 128, 255, 256} {
		base := strings.Repeat("longNameQ", 40)[:k]
		for _, suf := range []string{"", "a", "b", "aa", "ab", "0", "_", "A"} {
			d = append(d, base+suf, suf+base)
		}
	}
	d = append(d, "IXSCAN", "SCAN", "REDACTED", "дбЖ", "😀coll", "system", "views", "A", "a b", "a\tb", "a\"b", "a\\b", "ssn", "SSN", "Ssn",
		strings.Repeat("n", 300), "é", "é")
	return d
}

func idx0(dict []string, n string) int {
	for i, d := range dict {
		if d == n {
			return i
		}
	}
	return 0
}

// c13OutputShaped derives names from pseudonyms the tool itself produced (refs) and from fixed digit strings.
func c13OutputShaped(pre string, refs []string) []string {
	digits := []string{"deadbeefdeadbeef", "0123456789abcdef", "0000000000000000", "ffffffffffffffff"}
	out := []string{}
	seen := map[string]bool{}
	for _, r := range refs {
		if !seen[r] && !strings.Contains(r, ".") && !strings.HasPrefix(r, "$") {
			seen[r] = true
			out = append(out, r)
		}
		if len(r) >= 16 {
			digits = append(digits, r[len(r)-16:])
		}
	}
	for _, hx := range digits {
		for _, s := range []string{hx, "_" + hx, "id_" + hx, "X_" + hx, "REDACTED_" + hx, pre + "_" + hx, pre + "__" + hx, pre + "_" + hx + "_" + hx,
			strings.ToUpper(hx), hx[:15], hx + "0", "_" + hx[:15], "_" + hx + "0", pre + "_" + hx + "x", "x" + pre + "_" + hx, pre + "_" + strings.ToUpper(hx),
			pre + "-" + hx, hx + "_" + hx, "a_b_" + hx} {
			if !seen[s] && !strings.Contains(s, ".") && !strings.HasPrefix(s, "$") {
				seen[s] = true
				out = append(out, s)
			}
		}
	}
	// second generation: what the tool makes of the names above is again a name
	n := len(out)
	for i := 0; i < n; i++ {
		if h := HashName(out[i]); !seen[h] && !strings.Contains(h, ".") && !strings.HasPrefix(h, "$") {
			seen[h] = true
			out = append(out, h)
		}
	}
	return out
}

var c13Replacements = []struct {
	name string
	f    Flags
}{
	{"default", Flags{}},
	{"X", Flags{R: "X"}},
	{"meta", Flags{R: `<V "x" \ é日>`}},
	{"empty", Flags{REmpty: true}},
	{"regexy", Flags{R: `a.b*(c)[d]$^|+?{1}`}},
	// text that a template / regexp replacement routine would expand
	{"dollar-end", Flags{R: "US$"}},
	{"dollar-start", Flags{R: "$REDACTED"}},
	{"group-ref", Flags{R: "${1}x$2"}},
	{"percent", Flags{R: "100%s %d%%"}},
}

func c13Run(c *Ctx) {
	dict := c13Dictionary(c.Thorough())
	// every shard enumerates the whole dictionary in its own order (ascending / descending / strided),
	// in a separate process: the digests must agree.
	order := make([]int, len(dict))
	for i := range order {
		switch c.Shard % 3 {
		case 0:
			order[i] = i
		case 1:
			order[i] = len(dict) - 1 - i
		default:
			order[i] = (i*7919 + c.Shard) % len(dict)
		}
	}
	if c.Shard%3 == 2 {
		// the strided order is a permutation only if gcd(7919,len)=1; fall back to ascending otherwise
		seen := make([]bool, len(dict))
		okp := true
		for _, o := range order {
			if seen[o] {
				okp = false
				break
			}
			seen[o] = true
		}
		if !okp {
			for i := range order {
				order[i] = i
			}
		}
	}
	for _, rp := range c13Replacements {
		rp.f.Apply()
		pre := rp.f.Replacement()
		form := regexp.MustCompile("^" + regexp.QuoteMeta(pre) + "_[0-9a-f]{16}$")
		res := make([]string, len(dict))
		for _, i := range order {
			res[i] = HashName(dict[i])
			c.Eval(1)
		}
		// second pass in the opposite order: same answers (history independence within a process)
		for k := len(order) - 1; k >= 0; k-- {
			i := order[k]
			if h := HashName(dict[i]); h != res[i] {
				c.Violate("unstable:second-call", fmt.Sprintf("HashName(%q) returned %q first and %q later (replacement %q)", dict[i], res[i], h, pre), int64(len(dict[i])),
					map[string]any{"kind": "hashname", "name": dict[i], "replacement": pre}, nil)
			}
			c.Eval(1)
		}
		byPseud := map[string]string{}
		for i, name := range dict {
			c.Distinct(rp.name + "\x00" + name)
			if !form.MatchString(res[i]) {
				c.Violate("form", fmt.Sprintf("pseudonym %q of component %q is not <replacement>_<16 hex> (replacement %q)", res[i], name, pre), int64(len(name)),
					map[string]any{"kind": "hashname", "name": name, "replacement": pre}, nil)
			}
			if other, ok := byPseud[res[i]]; ok && other != name {
				c.Violate("collision", fmt.Sprintf("components %q and %q share the pseudonym %q", other, name, res[i]), int64(len(name)),
					map[string]any{"kind": "hashname", "name": name, "other": other, "replacement": pre}, nil)
			}
			byPseud[res[i]] = name
			if form.MatchString(res[i]) {
				c.Outcome("well-formed pseudonym")
			} else {
				c.Outcome("malformed pseudonym")
			}
		}
		// names shaped like (parts of) the tool's own output under this and other replacement texts: a whole
		// pseudonym, its digits alone, the digits behind another prefix, near misses, a pseudonym of a pseudonym
		for _, s := range c13OutputShaped(pre, []string{res[idx0(dict, "a")], res[idx0(dict, "ab")], res[idx0(dict, "field_1_Name")], res[idx0(dict, "日")]}) {
			h := HashName(s)
			c.Eval(1)
			c.Distinct(rp.name + "\x00shaped\x00" + s)
			if !form.MatchString(h) || h == s {
				c.Violate("form:output-shaped-name", fmt.Sprintf("pseudonym %q of the output-shaped component %q is not a fresh <replacement>_<16 hex> (replacement %q)", h, s, pre), int64(len(s)),
					map[string]any{"kind": "hashname", "name": s, "replacement": pre}, nil)
			}
			if other, ok := byPseud[h]; ok && other != s {
				c.Violate("collision:output-shaped-name", fmt.Sprintf("components %q and %q share the pseudonym %q", other, s, h), int64(len(s)),
					map[string]any{"kind": "hashname", "name": s, "other": other, "replacement": pre}, nil)
			}
			byPseud[h] = s
			if h2 := HashName(s); h2 != h {
				c.Violate("unstable:second-call", fmt.Sprintf("HashName(%q) returned %q first and %q later (replacement %q)", s, h, h2, pre), int64(len(s)),
					map[string]any{"kind": "hashname", "name": s, "replacement": pre}, nil)
			}
		}
		c.Count("components", int64(len(dict)))
		c.Count("distinct_pseudonyms_"+rp.name, 0)
		if c.Shard == 0 {
			c.P.Counters["distinct_pseudonyms_"+rp.name] = int64(len(byPseud))
		}
		// leading '$' and dotted compositions (depth <= 3) over a sub-dictionary
		sub := dict[:1+40+1600]
		if c.Thorough() {
			sub = dict[:1+40+1600+64000]
		}
		idx := map[string]int{}
		for i, n := range dict {
			idx[n] = i
		}
		step := 1
		for i := 0; i < len(sub); i += step {
			a := sub[i]
			if h := HashName("$" + a); h != res[idx[a]] {
				c.Violate("dollar", fmt.Sprintf("HashName(%q)=%q but HashName(%q)=%q", "$"+a, h, a, res[idx[a]]), int64(len(a)),
					map[string]any{"kind": "hashname", "name": "$" + a, "replacement": pre}, nil)
			}
			c.Eval(1)
			b := sub[(i*31+7)%len(sub)]
			d := sub[(i*17+3)%len(sub)]
			for _, comp := range [][]string{{a, b}, {b, a}, {a, b, d}, {a, "", b}, {a, a}} {
				name := strings.Join(comp, ".")
				want := make([]string, len(comp))
				for k, p := range comp {
					want[k] = res[idx[p]]
				}
				c.Eval(1)
				c.Distinct(rp.name + "\x00" + name)
				if h := HashName(name); h != strings.Join(want, ".") {
					c.Violate("componentwise", fmt.Sprintf("HashName(%q)=%q, expected component-wise %q", name, h, strings.Join(want, ".")), int64(len(name)),
						map[string]any{"kind": "hashname", "name": name, "replacement": pre}, nil)
				}
			}
		}
		// '$' is ignored only as the first character of the whole name: a component that starts with '$' further
		// down a dotted path is a different component from the same text without it
		if c.Shard == 0 {
			for _, a := range []string{"db", "my_db", "a", "", "x.y"} {
				for _, b := range []string{"cmd", "b", "", "external", "0"} {
					for _, pair := range [][2]string{{a + ".$" + b, a + "." + b}, {a + ".$$" + b, a + ".$" + b}, {a + "." + b + ".$", a + "." + b + "."}, {a + ".$" + b + ".q", a + "." + b + ".q"}} {
						h1, h2 := HashName(pair[0]), HashName(pair[1])
						c.Eval(2)
						c.Distinct(rp.name + "\x00inner$" + pair[0])
						if h1 == h2 {
							c.Violate("inner-dollar-collision", fmt.Sprintf("HashName(%q) == HashName(%q) == %q: two different components share a pseudonym", pair[0], pair[1], h1), int64(len(pair[0])),
								map[string]any{"kind": "hashname", "name": pair[0], "other": pair[1], "replacement": pre}, nil)
						}
						if !strings.Contains(pre, ".") && strings.Count(h1, ".") != strings.Count(pair[0], ".") {
							c.Violate("depth", fmt.Sprintf("HashName(%q)=%q does not keep the path depth", pair[0], h1), int64(len(pair[0])), map[string]any{"kind": "hashname", "name": pair[0], "replacement": pre}, nil)
						}
					}
				}
			}
		}
		// digest for cross-process comparison
		h := sha256.New()
		for i, n := range dict {
			fmt.Fprintf(h, "%s\x00%s\n", n, res[i])
		}
		c.Fact("digest_"+rp.name, fmt.Sprintf("%x", h.Sum(nil)))
		if c.Shard == 0 && rp.name == "default" {
			c.Sample(map[string]any{"name": dict[45], "pseudonym": res[45]})
			c.Sample(map[string]any{"name": "a.b", "pseudonym": HashName("a.b")})
		}
	}
	Flags{}.Apply()
	c13Big(c)

	// --- histories: explicit-state search over the write-only side table -----------------------
	// alphabet: 8 names + 2 redactions of lines that pseudonymise other names
	names := []string{"a", "b", "a.b", "$a", "ab", "", "é", "REDACTED"}
	lines := []string{
		`{"t":{"$date":"2024-01-01T00:00:00.000Z"},"s":"I","c":"COMMAND","id":1,"ctx":"conn1","msg":"Slow query","attr":{"ns":"a.b","command":{"find":"b","filter":{"ab":1},"$db":"a"}}}`,
		`{"t":{"$date":"2024-01-01T00:00:00.000Z"},"s":"I","c":"NETWORK","id":2,"ctx":"conn2","msg":"x","attr":{"ns":"b.a"}}`,
	}
	type ev struct {
		isLine bool
		s      string
	}
	var alpha []ev
	for _, n := range names {
		alpha = append(alpha, ev{false, n})
	}
	for _, l := range lines {
		alpha = append(alpha, ev{true, l})
	}
	wf := Flags{W: true, F: []string{"a.b"}}
	apply := func(e ev) string {
		if e.isLine {
			o, ok, pv := redactLine(e.s)
			if pv != nil || !ok {
				return fmt.Sprintf("<failed %v>", pv)
			}
			return o
		}
		return HashName(e.s)
	}
	wf.Apply()
	RedactedFieldMapping = map[string]string{}
	ref := make([]string, len(alpha))
	for i, e := range alpha {
		RedactedFieldMapping = map[string]string{}
		ref[i] = apply(e)
	}
	depth := 3
	if c.Thorough() {
		depth = 4
	}
	states := map[string]bool{}
	canon := func() string {
		ks := make([]string, 0, len(RedactedFieldMapping))
		for k, v := range RedactedFieldMapping {
			ks = append(ks, k+"="+v)
		}
		sort.Strings(ks)
		return strings.Join(ks, ";")
	}
	var seqNo int64
	body := func(x *X) {
		n := 1 + x.Free(depth, "history length")
		seq := make([]int, n)
		for i := range seq {
			seq[i] = x.Free(len(alpha), "event")
		}
		seqNo++
		RedactedFieldMapping = map[string]string{}
		states[canon()] = true
		for k, ei := range seq {
			got := apply(alpha[ei])
			c.P.Transitions++
			states[canon()] = true
			if got != ref[ei] {
				c.Violate("history", fmt.Sprintf("after history %v event %d yields %q, in a fresh process state %q", seq[:k], ei, got, ref[ei]), int64(k),
					map[string]any{"kind": "history", "sequence": seq}, nil)
			}
		}
		c.P.Traces++
		c.Eval(1)
		c.Distinct(fmt.Sprint("hist", seq))
	}
	if c.Shard == 0 {
		st := Explore(body, ExploreOpts{Bound: -1}, func(x *X) {})
		c.P.States += int64(len(states))
		c.Count("history_sequences", st.Executions)
		c.Count("max:history_depth", int64(depth))
	}
	Flags{}.Apply()

	// --- through the CLI (shard 0 and 1 only: namespaces / field names) -------------------------
	if c.Shard == 0 || c.Shard == 1%c.NShards {
		c13CLI(c, dict)
	}
}

func c13CLI(c *Ctx, dict []string) {
	vocab := scrapeVocab(c.Src)
	var names []string
	for _, n := range dict[:1+40+1600] {
		if n == "" || vocab[n] {
			continue
		}
		names = append(names, n)
	}
	for i := 0; i < 500; i++ {
		names = append(names, fmt.Sprintf("field_%d_Name", i))
	}
	dir := freshDir(c.Scratch, "cli13")
	var in strings.Builder
	mode := c.Shard // 0: namespaces, 1: field names
	for i, n := range names {
		var l *LNode
		if mode == 0 {
			l = LO("t", LO("$date", LS("2024-01-01T00:00:00.000Z")), "s", LS("I"), "c", LS("NETWORK"), "id", LN("1"), "ctx", LS(fmt.Sprintf("conn%d", i)), "msg", LS("m"),
				"attr", LO("ns", LS("dbq."+n)))
		} else {
			l = LO("t", LO("$date", LS("2024-01-01T00:00:00.000Z")), "s", LS("I"), "c", LS("COMMAND"), "id", LN("1"), "ctx", LS(fmt.Sprintf("conn%d", i)), "msg", LS("Slow query"),
				"attr", LO("ns", LS("dbq.cq"), "command", LO("find", LS("cq"), "filter", LO(n, LN("1")), "$db", LS("dbq")), "planSummary", LS(c13Plan(n))))
		}
		in.WriteString(l.JSON())
		in.WriteByte('\n')
	}
	inPath := filepath.Join(dir, "in.log")
	os.WriteFile(inPath, []byte(in.String()), 0o644)
	for _, rp := range append(append([]struct {
		name string
		f    Flags
	}{}, c13Replacements[:3]...), append(c13Replacements[5:], struct {
		name string
		f    Flags
	}{"ZZ-with-encryption", Flags{R: "ZZ", Y: true}}, struct {
		name string
		f    Flags
	}{"ZZ-with-encryption-under-a-key-generated-by-the-run", Flags{R: "ZZ", Y: true, Key: []byte("fresh")}}, struct {
		name string
		f    Flags
	}{"X-with-numbers-booleans-ips", Flags{R: "X", N: true, B: true, I: true}})...) {
		f := rp.f
		if mode == 0 {
			f.W = true
		} else {
			f.F = []string{"dbq.cq"}
		}
		keyPath := writeKeyFile(dir)
		if f.Y && f.Key != nil {
			keyPath = filepath.Join(dir, fmt.Sprintf("fresh-%d.key", mode)) // absent: the run generates its own key
			os.Remove(keyPath)
		}
		args := append([]string{"redact", inPath}, f.CLIArgs(keyPath)...)
		if f.Y {
			args = append(args, "--outputFile", filepath.Join(dir, "out.log"))
		}
		res, err := runCLI(CLIRun{Bin: c.CLI, Args: args, Dir: dir})
		if err != nil || res.Exit != 0 {
			c.HarnessError("C13 CLI run failed: %v exit=%d stderr=%s", err, res.Exit, res.Stderr)
			return
		}
		if f.Y {
			res.Stdout, _ = os.ReadFile(filepath.Join(dir, "out.log"))
		}
		outLines := strings.Split(strings.TrimSuffix(string(res.Stdout), "\n"), "\n")
		if len(outLines) != len(names) {
			c.Violate("cli:line-count", fmt.Sprintf("CLI emitted %d lines for %d input lines", len(outLines), len(names)), 0, map[string]any{"kind": "cli13", "mode": mode}, nil)
			continue
		}
		// the expected pseudonym is computed WITHOUT encryption set up: a pseudonym depends on the name and the replacement
		// text only, not on --encrypt or on which key the run happens to use
		fe := f
		fe.Y = false
		fe.Apply()
		for i, n := range names {
			c.Eval(1)
			j, err := ParseJSON([]byte(outLines[i]))
			if err != nil {
				c.Violate("cli:bad-json", "CLI output line is not JSON: "+outLines[i], int64(len(n)), map[string]any{"kind": "cli13", "name": n}, nil)
				continue
			}
			var got, want string
			attr := jget(j, "attr")
			if mode == 0 {
				if v := jget(attr, "ns"); v != nil {
					got = v.Str
				}
				want = HashName("dbq") + "." + HashName(n)
			} else {
				fl := jget(jget(attr, "command"), "filter")
				if fl != nil && len(fl.Keys) == 1 {
					got = fl.Keys[0]
				}
				want = HashName(n)
				// the same name as an index key of the plan summary: the same pseudonym
				if c13Plan(n) != "COLLSCAN" {
					ps := ""
					if v := jget(attr, "planSummary"); v != nil {
						ps = v.Str
					}
					if wantPS := "IXSCAN { " + want + ": 1, " + HashName("zzOther") + ": -1 }"; ps != wantPS {
						c.Violate("cli:plan-summary-pseudonym", fmt.Sprintf("the index key %q of the plan summary became %q, expected %q (the pseudonym the same name gets as a filter key; flags %s)", n, ps, wantPS, f), int64(len(n)),
							map[string]any{"kind": "cli13", "name": n, "flags": f.String()}, nil)
					}
				}
			}
			c.Distinct(fmt.Sprintf("cli%d\x00%s\x00%s", mode, rp.name, n))
			if got != want {
				c.Violate(fmt.Sprintf("cli:mismatch:mode%d", mode), fmt.Sprintf("through the CLI the name %q became %q, in-process pseudonym is %q (flags %s)", n, got, want, f), int64(len(n)),
					map[string]any{"kind": "cli13", "name": n, "flags": f.String()}, nil)
			}
		}
	}
	Flags{}.Apply()
}

// c13Plan: a plan summary that names the field as an index key — for names the summary syntax can hold
var c13PlanName = regexp.MustCompile(`^[A-Za-z0-9_][A-Za-z0-9_.\-]*$`)

func c13Plan(n string) string {
	if c13PlanName.MatchString(n) && !strings.Contains(n, "..") && !strings.HasSuffix(n, ".") {
		return "IXSCAN { " + n + ": 1, zzOther: -1 }"
	}
	return "COLLSCAN"
}

// c13Big: a dictionary large enough that ANY name table, memo or cache addressed by a digest of 32 bits or fewer
// is bound to confuse some pair: ~2.6 M (thorough 10 M) identifiers of equal length (birthday bound: hundreds of
// pairs for every 32-bit function), hashed in this process in one order and again in the opposite order.  Only the
// 64-bit pseudonym value is kept per name.  Every worker is a separate process with its own order; the digests of
// the tables must agree.
func c13Big(c *Ctx) {
	words := []string{"user", "order", "item", "price", "total", "city", "zip", "phone", "mail", "name", "first", "last", "date", "time", "flag", "code", "type", "kind", "note", "text", "path", "size", "rank", "cost", "unit", "area", "zone", "lane", "door", "room", "seat", "slot", "page", "line", "word", "mark", "sign", "tone", "hue", "tint"}
	n1 := 1600000
	if c.Thorough() {
		n1 = 9000000
	}
	total := n1 + len(words)*len(words)*len(words)*16
	name := func(i int) string {
		if i < n1 {
			// fixed length 8: 'n' + 7 base-36 digits
			const d = "0123456789abcdefghijklmnopqrstuvwxyz"
			b := [8]byte{'n'}
			v := i*7 + 3
			for k := 7; k >= 1; k-- {
				b[k] = d[v%36]
				v /= 36
			}
			return string(b[:])
		}
		j := i - n1
		w := len(words)
		a, b2, c2, v := j%w, (j/w)%w, (j/(w*w))%w, j/(w*w*w)
		t := words[c2]
		return words[a] + strings.ToUpper(words[b2][:1]) + words[b2][1:] + strings.ToUpper(t[:1]) + t[1:] + string(rune('A'+v))
	}
	Flags{}.Apply()
	form := regexp.MustCompile("^REDACTED_[0-9a-f]{16}$")
	vals := make([]uint64, total)
	// every worker has its own order: shard 0 ascending, shard 1 descending, the others strided by a prime that does
	// not divide the size (a permutation), so that what is resident in any bounded table differs from worker to worker
	strides := []int{1, 1, 7919, 104729, 1299709, 15485863, 32452843, 49979687, 67867967, 86028121, 104395301, 122949823, 141650939, 160481183, 179424673, 198491317}
	stride := strides[c.Shard%len(strides)]
	for total%stride == 0 && stride > 1 {
		stride += 2
	}
	at := func(k int) int {
		switch {
		case c.Shard%len(strides) == 1:
			return total - 1 - k
		case stride == 1:
			return k
		}
		return int((int64(k)*int64(stride) + int64(c.Shard)) % int64(total))
	}
	if gcd(stride, total) != 1 {
		c.HarnessError("C13: stride %d is not coprime with %d", stride, total)
		return
	}
	for k := 0; k < total; k++ {
		i := at(k)
		h := HashName(name(i))
		if len(h) != 25 || !form.MatchString(h) {
			c.Violate("form", fmt.Sprintf("pseudonym %q of component %q is not <replacement>_<16 hex>", h, name(i)), 8, map[string]any{"kind": "hashname", "name": name(i), "replacement": "REDACTED"}, nil)
			continue
		}
		fmt.Sscanf(h[9:], "%x", &vals[i])
	}
	c.Eval(int64(total))
	// opposite order: the same answers
	for k := total - 1; k >= 0; k-- {
		i := at(k)
		var v uint64
		h := HashName(name(i))
		if len(h) == 25 {
			fmt.Sscanf(h[9:], "%x", &v)
		}
		if v != vals[i] {
			c.Violate("unstable:second-call", fmt.Sprintf("HashName(%q) returned …%016x first and %q later, after %d other names had been hashed", name(i), vals[i], h, total), 8,
				map[string]any{"kind": "hashname-big", "name": name(i)}, nil)
		}
	}
	c.Eval(int64(total))
	seen := make(map[uint64]int32, total)
	for i, v := range vals {
		if j, ok := seen[v]; ok {
			c.Violate("collision", fmt.Sprintf("components %q and %q share the pseudonym REDACTED_%016x (dictionary of %d equal-length identifiers, hashed in one process)", name(int(j)), name(i), v, total), 8,
				map[string]any{"kind": "hashname-big", "name": name(i), "other": name(int(j))}, nil)
			continue
		}
		seen[v] = int32(i)
	}
	hd := sha256.New()
	var buf [8]byte
	for _, v := range vals {
		for k := 0; k < 8; k++ {
			buf[k] = byte(v >> (8 * k))
		}
		hd.Write(buf[:])
	}
	c.Fact("digest_big", fmt.Sprintf("%x", hd.Sum(nil)))
	c.Count("max:big_dictionary_components", int64(total))
	if c.Shard == 0 {
		c.Distinct("big-dictionary")
	}
}

func gcd(a, b int) int {
	for b != 0 {
		a, b = b, a%b
	}
	return a
}

func jget(n *JNode, key string) *JNode {
	if n == nil || n.Kind != JObj {
		return nil
	}
	for i, k := range n.Keys {
		if k == key {
			return n.Kids[i]
		}
	}
	return nil
}

// a literal handed to Getenv / LookupEnv, or any upper-case string constant with an underscore (a name kept in a constant)
var envLit = regexp.MustCompile(`(?:(?:Getenv|LookupEnv)\("([A-Za-z0-9_]+)"\))|"([A-Z][A-Z0-9]*(?:_[A-Z0-9]+)+)"`)

// scrapeEnvNames: the environment variables the current sources read, minus the documented ones
func scrapeEnvNames(src string) []string {
	seen := map[string]bool{"ATLAS_PUBLIC_KEY": true, "ATLAS_PRIVATE_KEY": true, "ANONYMONGO_VERSION": true}
	var out []string
	files, _ := filepath.Glob(filepath.Join(src, "*.go"))
	sort.Strings(files)
	for _, f := range files {
		if strings.Contains(filepath.Base(f), "zz_verif_") {
			continue
		}
		b, err := os.ReadFile(f)
		if err != nil {
			continue
		}
		for _, m := range envLit.FindAllStringSubmatch(string(b), -1) {
			n := m[1]
			if n == "" {
				n = m[2]
			}
			if !seen[n] {
				seen[n] = true
				out = append(out, n)
			}
		}
	}
	return out
}

var setLit = regexp.MustCompile(`Set\("([^"\\]+)"`)
var strLit = regexp.MustCompile(`"(\$[A-Za-z]+)"`)

// scrapeVocab collects every Set("…") literal of the current operators.go / constants.go.
func scrapeVocab(src string) map[string]bool {
	v := map[string]bool{}
	for _, f := range []string{"operators.go", "constants.go"} {
		b, err := os.ReadFile(filepath.Join(src, f))
		if err != nil {
			continue
		}
		for _, m := range setLit.FindAllStringSubmatch(string(b), -1) {
			v[m[1]] = true
		}
		for _, m := range strLit.FindAllStringSubmatch(string(b), -1) {
			v[m[1]] = true
		}
	}
	return v
}

func c13Post(c *Ctx, m *Part) {
	for k, vs := range m.Facts {
		if strings.HasPrefix(k, "digest_") && len(vs) != 1 {
			c.P.Viols["process-dependent:"+k] = &Viol{Sig: "process-dependent:" + k, Count: 1, What: fmt.Sprintf("separate processes enumerating the dictionary in different orders produced %d different name→pseudonym tables", len(vs)), Replay: map[string]any{"kind": "digests", "values": vs}}
		}
	}
}

func init() {
	register(&PropDef{
		ID: "C13", Level: "model_checking",
		Rule:        "dictionary: all names of length <=3 over a 40-symbol alphabet (65 641 incl. empty) + generated identifiers + Unicode/edge names, x 5 replacement prefixes, each name hashed twice in opposite orders; dotted compositions depth <=3; every worker is a separate process with its own enumeration order (digests compared); histories: all sequences of length <=3 (thorough 4) over 8 names + 2 line redactions from a reset side table, states = canonical side-table contents; CLI pass over 1 600+ names as attr.ns (--redactNamespaces) and as filter keys (--redactFieldNames). distinct = (replacement, name) pairs / histories / CLI names" + "; big dictionary: 2.6 M (thorough 10 M) identifiers (1.6 M / 9 M of equal length 8) hashed twice per process, every worker in its own order (ascending, descending, 14 prime strides); 9 replacement texts incl. template-like ones; plan-summary keys through the CLI",
		Assumptions: []string{"collision-freedom is decided for the enumerated dictionary only", "only a single leading '$' is exercised"},
		Run:         c13Run, Post: c13Post,
	})
}
