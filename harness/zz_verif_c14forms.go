//go:build verif

package main

// C14, forms of the expression: the big sweeps use three expressions.  Here MANY forms of expression (anchored
// literal with and without a group, one-sided anchors, classes, repetition, alternation with and without a group,
// flags, word boundaries, \A \z) meet a dictionary of names that are near misses of each other (prefix, suffix,
// infix, case, doubled letters, a line break inside) on a few simple line shapes.  Whether a NAME matches is
// decided by the regexp package on that name alone; a tool that pre-processes the expression (literal prefixes,
// substring shortcuts, case folding, anchoring) or the name disagrees somewhere in this table.

import (
	"fmt"
	"regexp"
	"strings"
)

var c14FormExprs = []string{
	`^ssn$`, `^(?:ssn)$`, `^(ssn)$`, `^ssn`, `ssn$`, `ssn`, `^ss.$`, `^s+n$`, `^[s][s][n]$`, `(?i)ssn`, `(?i)^ssn$`, `^ssn$|^pii$`, `^(ssn|pii)$`, `^ssn|pii$`,
	`\bssn\b`, `^ssn\b`, `\Assn\z`, `(?m)^ssn$`, `(?s)^ssn$`, `(?U)^s+n$`, `^(?i:s)sn$`, `^ssn?$`, `^s{2}n$`, `^ssn$|`, `^$`, `^id$`, `^(?:id)$`, `_id$`, `^id`, `^\w+_id$`,
	`^\d+$`, `^[A-Z]`, `^.{3}$`, `^(ssn)\d*$`, `^x?ssn$`, `ssn.`, `.ssn`, `^pii$`, `^(?:p)(?:i)(?:i)$`, `ssnIssuer`, `^ssnIssuer$`, `^ssn(Issuer)?$`,
}

var c14FormNames = []string{"ssn", "SSN", "Ssn", "ssn2", "xssn", "xssnx", "ssnIssuer", "my_ssn", "ssn_", "s", "ss", "sn", "sssn", "ssnn", "ssssn", "pii", "piii", "xpii", "PII",
	"id", "_id", "paid", "valid", "idx", "user_id", "user_idx", "123", "12a", "A1", "a1", "a", "abc", "a\nssn", "ssn\nb", "ssn pii", "ſsn", "ssn\u0000", "Issuer", "ssnIssuer2"}

func c14Forms(c *Ctx) {
	vocab := scrapeVocab(c.Src)
	structural := []string{"find", "filter", "update", "updates", "q", "u", "delete", "deletes", "insert", "documents", "aggregate", "pipeline", "command", "attr", "$db", "limit", "multi", "ns", "type", "query", "sort", "cursor", "lsid", "id"}
	mkLine := func(cmd string) string {
		return `{"t":{"$date":"2024-05-01T10:00:00.123+00:00"},"s":"I","c":"COMMAND","id":51803,"ctx":"conn7","msg":"Slow query","attr":{"type":"command","ns":"shop.orders","command":` + cmd + `,"durationMillis":3}}`
	}
	q := func(s string) string { return LS(s).JSON() }
	type shape struct {
		name string
		mk   func(n string) (line string, leafPath []string)
	}
	const canary = "q7Z~form~kX"
	shapes := []shape{
		{"find.filter.<n>", func(n string) (string, []string) {
			return mkLine(`{"find":"orders","filter":{"other":"keep me",` + q(n) + `:"` + canary + `"},"$db":"shop"}`), []string{"attr", "command", "filter", n}
		}},
		{"find.filter.<n>.$in[]", func(n string) (string, []string) {
			return mkLine(`{"find":"orders","filter":{` + q(n) + `:{"$in":["` + canary + `","x"]},"other":"keep me"},"$db":"shop"}`), []string{"attr", "command", "filter", n, "$in", "0"}
		}},
		{"update.u.$set.<n>", func(n string) (string, []string) {
			return mkLine(`{"update":"orders","updates":[{"q":{"other":"keep me"},"u":{"$set":{` + q(n) + `:"` + canary + `"}}}],"$db":"shop"}`), []string{"attr", "command", "updates", "0", "u", "$set", n}
		}},
		{"aggregate.$match.outer.<n>", func(n string) (string, []string) {
			return mkLine(`{"aggregate":"orders","pipeline":[{"$match":{"outer":{` + q(n) + `:"` + canary + `","other":"keep me"}}}],"cursor":{},"$db":"shop"}`), []string{"attr", "command", "pipeline", "0", "$match", "outer", n}
		}},
		{"insert.documents[].<n>.inner", func(n string) (string, []string) {
			return mkLine(`{"insert":"orders","documents":[{"other":"keep me",` + q(n) + `:{"inner":"` + canary + `"}}],"$db":"shop"}`), []string{"attr", "command", "documents", "0", n, "inner"}
		}},
	}
	var no int64
	used := 0
	for _, ex := range c14FormExprs {
		re, err := regexp.Compile(ex)
		if err != nil {
			c.HarnessError("C14 forms: %q does not compile: %v", ex, err)
			return
		}
		// expressions that match an operator or a structural key of the lines are outside what the statement decides
		skip := false
		for w := range vocab {
			if re.MatchString(w) || re.MatchString(strings.TrimLeft(w, "$")) {
				skip = true
			}
		}
		for _, w := range append(structural, "outer", "other", "inner") {
			if re.MatchString(w) {
				skip = true
			}
		}
		if skip {
			c.Count("form_expressions_left_out_because_they_match_an_operator", 1)
			continue
		}
		used++
		for _, fl := range []Flags{{Z: ex}, {Z: ex, N: true, B: true}} {
			fl.Apply()
			for _, n := range c14FormNames {
				no++
				if !c.Mine(no) {
					continue
				}
				want := re.MatchString(n)
				for _, sh := range shapes {
					line, _ := sh.mk(n)
					out, ok, pv := redactLine(line)
					c.Eval(1)
					c.Distinct("form|" + ex + "|" + n + "|" + sh.name)
					if pv != nil || !ok {
						c.Count("skipped_panics_or_rejected", 1)
						continue
					}
					redacted := !strings.Contains(out, canary)
					keepOK := strings.Contains(out, `"keep me"`)
					rp := map[string]any{"kind": "redact-line", "input": line, "flags": fl.String(), "output": out, "expression": ex, "name": n}
					switch {
					case want && !redacted:
						c.Violate("selective-forms:not-redacted:"+sh.name, fmt.Sprintf("--redactFieldsRegexp %q: the field name %q matches (regexp.MatchString) but the literal below it at %s is emitted in clear: %s", ex, n, sh.name, trunc(out, 300)), int64(len(ex)), rp, nil)
					case !want && redacted:
						c.Violate("selective-forms:redacted-without-matching-name:"+sh.name, fmt.Sprintf("--redactFieldsRegexp %q: the field name %q does not match, no name on the path does, but the literal at %s is redacted: %s", ex, n, sh.name, trunc(out, 300)), int64(len(ex)), rp, nil)
					case !keepOK:
						c.Violate("selective-forms:redacted-without-matching-name:sibling", fmt.Sprintf("--redactFieldsRegexp %q with the name %q at %s: the literal under the sibling field \"other\" (no matching name on its path) is redacted: %s", ex, n, sh.name, trunc(out, 300)), int64(len(ex)), rp, nil)
					default:
						c.Outcome("as-specified")
					}
				}
			}
		}
	}
	c.Count("max:form_expressions_used", int64(used))
	Flags{}.Apply()
}

// c14Depths: the matching name at EVERY depth 1..150 (thorough 600) of a chain of sub-documents, with the literal right
// below it or at the bottom of the chain; and a chain without any matching name (the literal stays).  Anything that
// stops looking at names beyond some depth shows at exactly that depth.
func c14Depths(c *Ctx) {
	maxD := 150
	if c.Thorough() {
		maxD = 600
	}
	const canary = "q7Z~depth~kX"
	mkLine := func(cmd string) string {
		return `{"t":{"$date":"2024-05-01T10:00:00.123+00:00"},"s":"I","c":"COMMAND","id":51803,"ctx":"conn7","msg":"Slow query","attr":{"type":"command","ns":"shop.orders","command":` + cmd + `,"durationMillis":3}}`
	}
	chain := func(d, at int, name string) string { // d levels l1..ld; level `at` (1-based) is called name; the literal sits at the bottom
		var sb strings.Builder
		for i := 1; i <= d; i++ {
			k := fmt.Sprintf("l%d", i)
			if i == at {
				k = name
			}
			sb.WriteString(`{"` + k + `":`)
		}
		sb.WriteString(`"` + canary + `"`)
		sb.WriteString(strings.Repeat("}", d))
		return sb.String()
	}
	var no int64
	for _, fl := range []Flags{{Z: "^ssn$"}, {Z: "(?i)^(ssn|pii)$", N: true, B: true}} {
		fl.Apply()
		for d := 1; d <= maxD; d++ {
			no++
			if !c.Mine(no) {
				continue
			}
			for _, v := range []struct {
				name string
				at   int
				want bool
			}{{"name at the bottom", d, true}, {"name at the top", 1, true}, {"name in the middle", (d + 1) / 2, true}, {"no matching name", 0, false}} {
				for si, cmd := range []string{
					`{"insert":"orders","documents":[` + chain(d, v.at, "ssn") + `],"$db":"shop"}`,
					`{"find":"orders","filter":` + chain(d, v.at, "ssn") + `,"$db":"shop"}`,
					`{"update":"orders","updates":[{"q":{"k":1},"u":{"$set":` + chain(d, v.at, "ssn") + `}}],"$db":"shop"}`,
				} {
					line := mkLine(cmd)
					out, ok, pv := redactLine(line)
					c.Eval(1)
					c.Distinct(fmt.Sprintf("depth|%s|%d|%s|%d", fl, d, v.name, si))
					if pv != nil || !ok {
						c.Count("skipped_panics_or_rejected", 1)
						continue
					}
					redacted := !strings.Contains(out, canary)
					rp := map[string]any{"kind": "redact-line", "input": line, "flags": fl.String(), "output": out}
					if v.want && !redacted {
						c.Violate("selective-depth:not-redacted", fmt.Sprintf("a chain of %d sub-documents with the matching name %s (level %d), flags [%s], %s: the literal is emitted in clear", d, v.name, v.at, fl, []string{"inserted document", "find filter", "$set"}[si]), int64(d), rp, nil)
					} else if !v.want && redacted {
						c.Violate("selective-depth:redacted-without-matching-name", fmt.Sprintf("a chain of %d sub-documents without any matching name, flags [%s], %s: the literal is redacted", d, fl, []string{"inserted document", "find filter", "$set"}[si]), int64(d), rp, nil)
					} else {
						c.Outcome("as-specified")
					}
				}
			}
		}
	}
	Flags{}.Apply()
}

const c14FormsRule = "; depths: the matching name at the bottom / top / middle of a chain of d sub-documents for EVERY d = 1..150 (thorough 600), and a chain with no matching name, in inserted documents, find filters and $set" + "; forms of the expression: 42 expressions (anchored literal with / without a group, one-sided anchors, classes, repetition, alternation with / without a group, flags i m s U, word boundaries, \\A \\z; those that match an operator or structural key are left out and counted) x 39 names that are near misses of each other x 5 line shapes x {plain, N+B}: redacted exactly when regexp.MatchString(expression, name)"
