//go:build verif

package main

// C04 — nothing outside the redaction zones is altered: every position labelled KEEP (envelope,
// metrics, non-query members of command documents, $limit/$skip, top-level $sample.size / search index /
// numCandidates / limit, $binary.subType), every object key outside the zones and — with field-name
// redaction off — inside them, comes out with the identical key, decoded string content and literal
// number text.

import (
	"fmt"
	"strings"
)

// keepEqual: deep identity of an input subtree and an output subtree (keys, order, decoded strings,
// number literal text).
func keepEqual(in *LNode, out *JNode, path []string) (string, string) {
	if in.Kind != out.Kind {
		return strings.Join(path, "."), in.Kind.String() + "→" + out.Kind.String()
	}
	switch in.Kind {
	case JBool:
		if in.Bool != out.Bool {
			return strings.Join(path, "."), "bool-changed"
		}
	case JNum:
		if in.Num != out.Num {
			return strings.Join(path, "."), "number-literal-changed"
		}
	case JStr:
		if in.Str != out.Str {
			return strings.Join(path, "."), "string-changed"
		}
	case JArr:
		if len(in.Kids) != len(out.Kids) {
			return strings.Join(path, "."), "array-length-changed"
		}
		for i := range in.Kids {
			if p, d := keepEqual(in.Kids[i], out.Kids[i], append(path, "[]")); d != "" {
				return p, d
			}
		}
	case JObj:
		if len(in.Kids) != len(out.Kids) {
			return strings.Join(path, "."), "member-count-changed"
		}
		for i := range in.Kids {
			if in.Keys[i] != out.Keys[i] {
				return strings.Join(append(path, sigSeg(in, i)), "."), "key-changed"
			}
			if p, d := keepEqual(in.Kids[i], out.Kids[i], append(path, sigSeg(in, i))); d != "" {
				return p, d
			}
		}
	}
	return "", ""
}

type c04Diff struct {
	path, detail, where string
}

// c04Walk walks the labelled input and the parsed output in parallel and reports alterations at
// positions the active flags do not allow to change.
func c04Walk(in *LNode, out *JNode, fl Flags, inZone bool, path []string, diffs *[]c04Diff) {
	c04WalkD(in, out, fl, inZone, -1, path, diffs)
}

// zd = depth below the command document (-1 outside any command document)
func c04WalkD(in *LNode, out *JNode, fl Flags, inZone bool, zd int, path []string, diffs *[]c04Diff) {
	if in.Zone {
		inZone = true
		zd = 0
	}
	where := "outside-zones"
	if inZone {
		where = "in-zone"
	}
	switch in.Lab.K {
	case LabKeep:
		if in.Kind != JObj && in.Kind != JArr {
			if p, d := keepEqual(in, out, path); d != "" {
				*diffs = append(*diffs, c04Diff{p, d, where + "-keep"})
			}
			return
		}
		// a KEEP container (explicit KEEP labels are propagated to the members that inherit; members
		// with their own label keep it): same kind, same member count, then member by member
		if in.Kind != out.Kind {
			*diffs = append(*diffs, c04Diff{strings.Join(path, "."), in.Kind.String() + "→" + out.Kind.String(), where + "-keep"})
			return
		}
		if len(in.Kids) != len(out.Kids) {
			*diffs = append(*diffs, c04Diff{strings.Join(path, "."), "member-count-changed", where + "-keep"})
			return
		}
	case LabNS:
		// a namespace inside a query-bearing field (a pipeline stage) is free to change; the verb's
		// collection, $db, getMore's collection and attr.ns are not
		if !fl.W && zd <= 1 {
			if p, d := keepEqual(in, out, path); d != "" {
				*diffs = append(*diffs, c04Diff{p, d, "namespace-without-W"})
			}
		}
		return
	case LabIP:
		if !fl.I {
			if p, d := keepEqual(in, out, path); d != "" {
				*diffs = append(*diffs, c04Diff{p, d, "remote-without-I"})
			}
		}
		return
	case LabSecret, LabDontCare, LabFieldRef:
		if in.Kind != JObj && in.Kind != JArr {
			// a sensitive number / boolean is a zone position only when its flag is on: without --redactNumbers
			// (--redactBooleans) it is emitted as it is, the number with its exact literal text
			if in.Lab.K == LabSecret && ((in.Kind == JNum && !fl.N) || (in.Kind == JBool && !fl.B)) {
				if p, d := keepEqual(in, out, path); d != "" {
					*diffs = append(*diffs, c04Diff{p, d, "in-zone-literal-without-its-flag"})
				}
			}
			return
		}
	}
	// a container that is not KEEP as a whole: align children by index where the shape allows it
	if in.Kind != out.Kind || len(in.Kids) != len(out.Kids) {
		return // shape changes inside zones are C03's concern
	}
	for i, k := range in.Kids {
		seg := "[]"
		if in.Kind == JObj {
			seg = sigSeg(in, i)
			if (!inZone || len(fl.F) == 0) && in.Keys[i] != out.Keys[i] {
				*diffs = append(*diffs, c04Diff{strings.Join(append(path, seg), "."), "key-changed", where + "-key"})
				continue
			}
		}
		nd := zd
		if nd >= 0 {
			nd++
		}
		c04WalkD(k, out.Kids[i], fl, inZone, nd, append(path, seg), diffs)
	}
}

// c04Sequences: lines of other components after damaged lines.  All sequences of up to 3 (thorough 4) lines over an
// alphabet of damaged lines (cut after a complete member, cut inside a string, a closing brace lost, an object followed
// by garbage, text) and of other-component lines that lack members of the damaged ones or order them differently, through
// the real stream code: every other-component line comes out tree-equal to its input, as many of them as went in.
func c04Sequences(c *Ctx) {
	full := `{"t":{"$date":"2024-05-01T10:00:03.000+00:00"},"s":"W","c":"CONTROL","id":22120,"ctx":"initandlisten","msg":"Access control is not enabled","tags":["startupWarnings"],"attr":{"note":"no auth","n":7469113720208097282}}`
	others := []string{
		`{"t":{"$date":"2024-05-01T10:00:02.000+00:00"},"s":"I","c":"NETWORK","id":22943,"ctx":"listener","msg":"Connection accepted","attr":{"remote":"192.168.1.5:51234","connectionId":12}}`,
		`{"s":"I","t":{"$date":"2024-05-01T10:00:04.000+00:00"},"msg":"reordered members","c":"STORAGE","attr":{"k":1.50}}`,
		`{"c":"REPL","attr":{}}`,
	}
	damaged := []string{
		full[:len(full)-1],                      // only the closing brace lost
		full[:strings.Index(full, `,"attr"`)],   // cut after a complete member
		full[:strings.Index(full, `no auth`)+3], // cut inside a string
		full + ` trailing garbage`,
		`not json at all`,
		full,
	}
	alpha := append(append([]string{}, damaged...), others...)
	depth := 3
	if c.Thorough() {
		depth = 4
	}
	var parsed []*JNode
	for _, o := range others {
		j, _ := ParseJSON([]byte(o))
		parsed = append(parsed, j)
	}
	Flags{}.Apply()
	var no int64
	var seq []int
	var rec func()
	rec = func() {
		if len(seq) > 0 {
			no++
			if c.Mine(no) {
				var lines []string
				wantOthers := 0
				for _, i := range seq {
					lines = append(lines, alpha[i])
					if i >= len(damaged) {
						wantOthers++
					}
				}
				for _, ch := range []string{"reader", "gzfile"} {
					out, err, pv := c06RunInproc(strings.Join(lines, "\n")+"\n", len(lines), ch, "nobar")
					c.Eval(1)
					c.Distinct(fmt.Sprintf("c04seq|%v|%s", seq, ch))
					if pv != nil || err != nil {
						continue
					}
					got := 0
					bad := ""
					for _, ol := range strings.Split(strings.TrimSuffix(out, "\n"), "\n") {
						j, e := ParseJSON([]byte(ol))
						if e != nil || j.Kind != JObj {
							continue
						}
						cv := jget(j, "c")
						if cv == nil || cv.Str == "CONTROL" {
							continue
						}
						got++
						match := false
						for _, p := range parsed {
							if jEqual(p, j) {
								match = true
							}
						}
						if !match && bad == "" {
							bad = ol
						}
					}
					if bad != "" || got != wantOthers {
						c.Violate("altered:other-component-line-after-damaged-line", fmt.Sprintf("sequence %v of {6 damaged / complete CONTROL lines, 3 lines of other components} through %s: %d lines of other components went in, %d came out, and this one equals none of the inputs as a tree: %s", seq, ch, wantOthers, got, trunc(bad, 300)), int64(len(seq)),
							map[string]any{"kind": "c04-sequence", "sequence": seq, "lines": lines, "channel": ch}, nil)
					}
				}
			}
		}
		if len(seq) == depth {
			return
		}
		for i := range alpha {
			seq = append(seq, i)
			rec()
			seq = seq[:len(seq)-1]
		}
	}
	rec()
}

func c04Eval(root *LNode, fl Flags, out string, ok bool) []c04Diff {
	if !ok {
		return []c04Diff{{"", "line-rejected", "whole-line"}}
	}
	j, err := ParseJSON([]byte(out))
	if err != nil || j.Kind != JObj {
		return []c04Diff{{"", "output-not-an-object", "whole-line"}}
	}
	var diffs []c04Diff
	// planSummary may change under F (and only then): relabel on the fly
	c04Walk(root, j, fl, false, nil, &diffs)
	if len(fl.F) > 0 {
		kept := diffs[:0]
		for _, d := range diffs {
			if d.path == "attr.planSummary" {
				continue
			}
			kept = append(kept, d)
		}
		diffs = kept
	}
	return diffs
}

// number and string alphabets of the T4 trees
var c04Numbers = []string{"0", "-0", "1.0", "1e3", "1E+3", "1.50e+3", "7469113720208097282", "-9223372036854775808", "9223372036854775807", "9223372036854775808", "18446744073709551615", "18446744073709551616", "1e400", "0.1000000000000000055511151231257827", "-1.5E-10", "123456789012345678901234567890", "0.0", "1E400", "4E0"}
var c04Strings = []string{"", "plain", "tab\t nl\n cr\r bs\b ff\f", "quote\" backslash\\ slash/", "ctl\u0001\u001f del\u007f", "é ü 日本    ", "astral \U0001F600 \U00010348", "<script>&amp;</script>", "$dollar", "a@b.co", "255.255.255.255:65535", "REDACTED", "2024-01-01T00:00:00Z", "  spaces  "}

func c04TValues() []tValue {
	var vals []tValue
	for _, n := range c04Numbers {
		n := n
		vals = append(vals, tValue{"num " + n, func() *LNode { return LN(n) }})
	}
	for _, s := range c04Strings {
		s := s
		vals = append(vals, tValue{fmt.Sprintf("str %q", s), func() *LNode { return LS(s) }})
	}
	vals = append(vals,
		tValue{"mixed array", func() *LNode {
			return LA(LN("1.50e+3"), LS("x\ty"), LNul(), LB(true), LA(LA(LO("k\"q", LN("1E+3"))), LA()), LO())
		}},
		tValue{"odd keys", func() *LNode {
			return LO("tab\tkey", LN("1.0"), "ctl\u0001", LS("v"), "é日", LO("nl\nk", LA(LN("-0"))), "", LS("empty key"), "<&>", LNul())
		}},
	)
	return vals
}

func c04Run(c *Ctx) {
	ns := "dbZq1.coQx7"
	all := flagSets("NBIWRFY", ns)
	zsets := []Flags{{Z: "^(fld|status)$"}, {Z: "^(fld|status)$", N: true, B: true, W: true, I: true}}
	cov := coveringFlags(ns)
	var layers []sweepLayer
	if c.Thorough() {
		layers = []sweepLayer{
			{"L0", GenOpts{LeafSet: 1, AllGates: true, RichEnv: true}, 0, append(append([]Flags{}, all...), zsets...)},
			{"L1", GenOpts{OneGate: true, LeafSet: 2, RichEnv: true}, 1, cov},
			{"L2", GenOpts{OneGate: true, LeafSet: 2}, 2, coveringFlags8(ns)},
		}
	} else {
		layers = []sweepLayer{
			{"L0", GenOpts{LeafSet: 2, AllGates: true, RichEnv: true}, 0, append(append([]Flags{}, all...), zsets...)},
			{"L1", GenOpts{OneGate: true, LeafSet: 2, RichEnv: true}, 1, coveringFlags8(ns)},
		}
	}
	layers = append(layers, sweepLayer{"scale", GenOpts{Scale: true, ScaleThorough: c.Thorough(), RichEnv: true}, 0, []Flags{{}, {N: true, B: true, I: true, W: true}, zsets[0]}})
	layers = append(layers, rootedLayers(c.Thorough(), []Flags{{}, {N: true, B: true, I: true, W: true}})...)
	layers = append(layers, sweepLayer{"spellings", GenOpts{LeafSet: 2, OneGate: true, RichEnv: true, Spellings: true}, 0, []Flags{{}, {N: true, B: true, I: true, W: true, F: []string{ns}}}})
	report := func(root *LNode, line, desc string, fl Flags, out string, ok bool, replay map[string]any) {
		diffs := c04Eval(root, fl, out, ok)
		if len(diffs) == 0 {
			c.Outcome("confined")
			return
		}
		c.Outcome("altered")
		seen := map[string]bool{}
		for _, d := range diffs {
			p := strings.ReplaceAll(d.path, ".[]", "[]")
			sig := "altered:" + d.where + ":" + coarseLoc(p) + ":" + d.detail
			if seen[sig] {
				continue
			}
			seen[sig] = true
			rp := map[string]any{}
			for k, v := range replay {
				rp[k] = v
			}
			rp["flags"], rp["input"], rp["output"] = fl.String(), line, out
			c.Violate(sig, fmt.Sprintf("%s at %s (%s) although the active flags [%s] do not allow this position to change; %s; input: %s", d.detail, p, d.where, fl, desc, trunc(line, 500)),
				int64(len(line)), rp, func() bool {
					fl.Apply()
					o, k, _ := redactLine(line)
					for _, d2 := range c04Eval(root, fl, o, k) {
						if d2.path == d.path && d2.detail == d.detail {
							return true
						}
					}
					return false
				})
		}
	}
	c04Sequences(c)
	twinHistories(c, "C04", twinFlagSets)
	wordsInOtherRoles(c, "C04")
	// text outside the zones survives the real line reader at every line length
	streamLenSweep(c, "C04", []string{"keep-blanks", "keep-mixed", "keep-multibyte"}, Flags{})
	sweep(c, layers, func(sc *sweepCase) bool {
		if sc.C.Root.HasDup() {
			return false
		}
		c.Distinct(sc.Line)
		if c.P.Evaluations < 300 {
			c.Sample(map[string]any{"slot": sc.C.SlotName, "gate": gates[sc.C.Gate].c + "/" + gates[sc.C.Gate].msg, "line": trunc(sc.Line, 1200)})
		}
		return true
	}, func(sc *sweepCase, fl Flags, out string, ok bool, pv any) {
		if pv != nil {
			c.Count("skipped_panics", 1)
			return
		}
		report(sc.C.Root, sc.Line, "slot "+sc.C.SlotName, fl, out, ok, replayOf(sc, fl, nil))
	})
	// --- T4: number / string / structure alphabets under every vocabulary path, outside the zones
	// (whole subtree KEEP) and, inside the zones, as arguments of $limit / $skip
	paths, _ := vocabPaths(c.Src)
	vals := c04TValues()
	nsn := func(kind, name string) *LNode { return LS(name).With(Label{K: LabNS, NSKind: kind}) }
	dcFilter := func() *LNode { return LO(Fn("a"), LN("1").DC()).DC() }
	places := []tPlacement{
		{"attr.extra", false, func(t *LNode) *LNode {
			return tEnvelope("COMMAND", "Slow query", LO("type", LS("command"), "ns", nsn("dbcoll", "db1.c1"), "extra", t, "command", LO("find", nsn("coll", "c1"), "filter", dcFilter(), "$db", nsn("db", "db1")), "after", t))
		}},
		{"command.readConcern", false, func(t *LNode) *LNode {
			return tEnvelope("WRITE", "Slow query", LO("type", LS("command"), "ns", nsn("dbcoll", "db1.c1"), "command", LO("find", nsn("coll", "c1"), "filter", dcFilter(), "readConcern", t, "$db", nsn("db", "db1")), "durationMillis", LN("7")))
		}},
		{"other-component", false, func(t *LNode) *LNode {
			return tEnvelope("STORAGE", "WiredTiger message", LO("message", t, "command", LO("find", LS("c1"), "filter", t), "ns", nsn("dbcoll", "db1.c1"), "remote", LS("203.0.113.77:50123").With(Label{K: LabIP})))
		}},
	}
	tf := coveringFlags8(ns)
	if c.Thorough() {
		tf = append(append([]Flags{}, cov...), zsets...)
	}
	var cur struct {
		root *LNode
		desc string
	}
	st := Explore(func(x *X) {
		pi := x.Free(len(paths), "vocabulary path")
		vi := x.Free(len(vals), "value")
		tree := tShapes(x, paths[pi], vals[vi].mk)
		pl := places[x.Free(len(places), "placement")]
		tree.Lab = Label{K: LabKeep}
		propagateLabels(tree)
		root := pl.build(tree)
		resolveLabels(root, false, false)
		cur.root, cur.desc = root, strings.Join(paths[pi], "/")+" = "+vals[vi].name+" @ "+pl.name
	}, ExploreOpts{Bound: -1, ShardDepth: 2, Shard: c.Shard, NShards: c.NShards}, func(x *X) {
		if cur.root.HasDup() {
			return
		}
		line := cur.root.JSON()
		c.Distinct(line)
		for _, fl := range tf {
			fl.Apply()
			out, ok, pv := redactLine(line)
			c.Eval(1)
			if pv != nil {
				c.Count("skipped_panics", 1)
				continue
			}
			report(cur.root, line, "tree "+cur.desc, fl, out, ok, map[string]any{"kind": "redact-T4", "choices": x.Trace(), "desc": cur.desc})
		}
	})
	c.Count("T4_trees", st.Executions)
	// $limit / $skip arguments at every pipeline depth keep their literal text
	for di := 0; di < 4; di++ {
		for _, op := range []string{"$limit", "$skip"} {
			for _, n := range c04Numbers {
				if !c.Mine(int64(di)) {
					continue
				}
				stage := LO(op, LN(n).Keep())
				pipe := LA(LO("$match", LO(Fn("fld"), LS("s").DC())), stage)
				for k := 0; k < di; k++ {
					switch k % 3 {
					case 0:
						pipe = LA(LO("$facet", LO("f1", pipe)))
					case 1:
						pipe = LA(LO("$lookup", LO("from", LS("aux").With(Label{K: LabNS, NSKind: "coll"}), "pipeline", pipe, "as", LS("j").DC())))
					default:
						pipe = LA(LO("$unionWith", LO("coll", LS("aux2").With(Label{K: LabNS, NSKind: "coll"}), "pipeline", pipe)))
					}
				}
				cmd := LO("aggregate", LS("coQx7").With(Label{K: LabNS, NSKind: "coll"}), "pipeline", pipe, "cursor", LO().Keep(), "$db", LS("dbZq1").With(Label{K: LabNS, NSKind: "db"}))
				cmd.Zone = true
				root := tEnvelope("COMMAND", "Slow query", LO("type", LS("command"), "ns", LS(ns).With(Label{K: LabNS, NSKind: "dbcoll"}), "command", cmd, "durationMillis", LN("7")))
				resolveLabels(root, false, false)
				line := root.JSON()
				c.Distinct(line)
				for _, fl := range cov {
					fl.Apply()
					out, ok, pv := redactLine(line)
					c.Eval(1)
					if pv != nil {
						continue
					}
					report(root, line, fmt.Sprintf("%s %s at pipeline depth %d", op, n, di), fl, out, ok, map[string]any{"kind": "limit-skip"})
				}
			}
		}
	}
	Flags{}.Apply()
}

func init() {
	register(&PropDef{
		ID: "C04", Level: "exploration",
		Rule:        "G with the rich envelope (64-bit integers, exponent / decimal / huge literals, nested arrays of arrays of documents, escape-heavy strings and keys incl. control characters) at 0 deviations over all 6 gates x 6 containers under all 2^7 flag sets plus two selective-mode sets, <=1 non-default production under a pairwise-covering set (thorough: <=2); T4 = every vocabulary path x {16 number literals, 14 strings of every escape class, mixed arrays, odd keys} x 5 tree shapes placed in 3 positions outside the zones (non-zone attribute, non-query command member, other component); $limit / $skip with every number literal at pipeline depth 0..3. Oracle: parallel walk of the labelled input tree and the output parsed by the harness' own reader: every KEEP position deep-identical (keys, order, decoded strings, number literal TEXT), namespaces identical without W, attr.remote without I, planSummary without F, every object key outside the zones and (without F) inside them identical. distinct = distinct input lines" + scaleRule + streamLenRule + "; a SECRET number / boolean keeps its literal when its flag is off" + twinRule + rootedRule + wordsRule,
		Assumptions: []string{"the label table of G (GRAMMAR.md / DESIGN.md 3.0) decides which command members are KEEP", "shape changes inside zones are C03's concern and stop the parallel walk at that node"},
		Run:         c04Run,
	})
}
