//go:build verif

package main

// Scale layers of the grammar G: the same productions as the ordinary layers, but with one SIZE parameter swept
// over EVERY value of a range instead of the handful of sibling arrangements — the width of an array or of a
// document (elements, stages, statements, members), the depth of a chain of wrappers, the byte length of one
// literal.  Code that treats "large" inputs differently (a fast path from N elements on, a recursion cut-off, a
// fixed scratch buffer, a cache keyed by a prefix) only shows at and beyond its threshold, wherever that is; the
// sweep visits every size up to the bound, so any threshold inside the bound is hit from both sides.
// Every element / level carries its own SECRET leaf with its own canary, so the oracles of C01, C02, C03, C04,
// C05, C10 and C19 apply to each of them unchanged.

import (
	"encoding/base64"
	"fmt"
	"strings"
	"time"
)

// texts appended to the rule descriptions of the checks that use the shared layers
const scaleRule = "; scale layers: for 36 productions (widths of $in / $all / $or / document members / pipeline stages / $lookup stages / $facet members / expression operands / $switch branches / search clauses / updates / $set members / $each / arrayFilters / deletes / documents / numeric lists outside the zones / query vectors; depths of embedded documents / $and-$or / $elemMatch / $not / nested arrays / arrays of documents / $cond / nested $lookup-$unionWith / $map-$filter / compound search; lengths of string, e-mail, $date, $binary literals and field names; well-formed base64 payloads of every decoded size and hex texts of every digit count) ONE size is swept over every value of a range (width 1..140 + neighbourhoods of powers of two to 1 100, thorough 1..1 100 to 9 000; depth 1..70 to 300, thorough 1..300 to 1 200; length 0..1 100 bytes to 70 000, thorough 0..4 200 to 300 000) x 4 leaf mixes (strings; a cycle over all literal classes; numbers first then wrapped literals and documents; numbers incl. literals that do not survive a float64), every element / level with its own SECRET leaf"
const streamLenRule = "; line-length sweep on the real stream code: a 3-line input whose middle line has exactly L bytes for every L up to past the reader's limit (quick: every L to 9 000 and 65 400..66 600 plus the neighbourhood of every multiple of 256; thorough: every L to 140 000), line shapes {length in a SECRET, blanks in text outside the zones of another component's line, mixed text in a KEEP attribute, an already redacted line, an $in list that grows under redaction}"

type scaleKind struct {
	name  string
	axis  string // "width", "depth", "length"
	build func(g *Gen, n int, lf func(i int) *LNode) *LNode
	post  func(c *Case, n int) // optional: additions to the line outside the command document
}

// number literals that do not survive a round trip through a float64 (or through an int64), and ordinary ones
var hardNumbers = []string{"0.25", "9007199254740993", "1.50", "1E2", "-0.0", "18446744073709551615", "3", "-3.6e-05", "1e400", "0.1000000000000000055511151231257827", "7469113720208097282", "1.0"}

// scale leaves: like the ordinary leaf kinds, but unique for any number of them in one line
func (g *Gen) scNum() *LNode {
	g.nsec++
	lit := fmt.Sprintf("-48151623%07d.5", g.nsec)
	return g.secret(LN(lit), ClsNum, lit)
}

// scHardNum: a sensitive number whose literal does not survive a float64 round trip (trailing zero, exponent form,
// integer beyond 2^53, negative fraction with trailing zero), unique per call
func (g *Gen) scHardNum() *LNode {
	g.nsec++
	var lit string
	switch g.nsec % 4 {
	case 0:
		lit = fmt.Sprintf("1%06d.50", g.nsec)
	case 1:
		lit = fmt.Sprintf("90071992548%06d", g.nsec)
	case 2:
		lit = fmt.Sprintf("1%06dE2", g.nsec)
	default:
		lit = fmt.Sprintf("-0.%06d0", g.nsec)
	}
	return g.secret(LN(lit), ClsNum, lit)
}
func (g *Gen) scDate() *LNode {
	g.nsec++
	d := time.Unix(1941000000+int64(g.nsec)*61, 0).UTC().Format("2006-01-02T15:04:05.000Z")
	return LO("$date", g.secret(LS(d), ClsDate, d))
}
func (g *Gen) scOid() *LNode {
	g.nsec++
	o := fmt.Sprintf("5f1e2d3c4b5a697887%06x", g.nsec)
	return LO("$oid", g.secret(LS(o), ClsOid, o))
}
func (g *Gen) scBin() *LNode {
	g.nsec++
	b := base64.StdEncoding.EncodeToString([]byte(fmt.Sprintf("q7ZKeyCanary%09d", g.nsec)))
	return LO("$binary", LO("base64", g.secret(LS(b), ClsBin, b), "subType", LS("04").Keep()))
}
func (g *Gen) scEmail() *LNode {
	c := g.canary()
	return g.secret(LS("user."+c+"@mail.example.com"), ClsEmail, c)
}

// scaleLeafFn: homogeneous strings (variant 0), a cycle over the literal classes (1), numbers first then
// wrapped literals and documents (2: the shape of an id list), all numbers (3).
func (g *Gen) scaleLeafFn(variant int) func(i int) *LNode {
	switch variant {
	case 0:
		return func(i int) *LNode { return g.sec() }
	case 1:
		return func(i int) *LNode {
			switch i % 8 {
			case 0:
				return g.sec()
			case 1:
				return g.scDate()
			case 2:
				return g.scOid()
			case 3:
				return g.scNum()
			case 4:
				return g.scEmail()
			case 5:
				return g.scBin()
			case 6:
				return g.secret(LB(true), ClsBool, "")
			default:
				c := g.canary()
				return g.secret(LS("US$ 100 "+c+" $x"), ClsStr, c)
			}
		}
	case 2:
		return func(i int) *LNode {
			switch {
			case i%8 == 7:
				return g.scOid()
			case i%8 == 5:
				return LO(g.FN(), g.sec())
			case i%8 == 3:
				return LA(g.sec(), g.scDate())
			default:
				return g.scNum()
			}
		}
	default:
		return func(i int) *LNode {
			if i%2 == 1 {
				return g.scHardNum()
			}
			return g.scNum()
		}
	}
}

const nScaleVariants = 4

func (g *Gen) fld(i int) LKey { return FN(fmt.Sprintf("%s_%d", g.fname(), i)) }

func seqN(n int, f func(i int) *LNode) []*LNode {
	out := make([]*LNode, n)
	for i := range out {
		out[i] = f(i)
	}
	return out
}

func (g *Gen) find(filter *LNode) *LNode {
	return g.tail(LO("find", g.coll(), "filter", filter, "limit", LN("25").Keep()))
}
func (g *Gen) agg(stages ...*LNode) *LNode {
	return g.tail(LO("aggregate", g.coll(), "pipeline", LA(stages...), "cursor", LO("batchSize", LN("101")).Keep()))
}

// nest wraps core in n levels; wrap(level, inner) builds one level and may add a sibling secret of its own.
func nestN(n int, core *LNode, wrap func(level int, inner *LNode) *LNode) *LNode {
	cur := core
	for l := n; l >= 1; l-- {
		cur = wrap(l, cur)
	}
	return cur
}

var scaleKinds []scaleKind

func init() {
	W := func(name string, b func(g *Gen, n int, lf func(i int) *LNode) *LNode) {
		scaleKinds = append(scaleKinds, scaleKind{name, "width", b, nil})
	}
	D := func(name string, b func(g *Gen, n int, lf func(i int) *LNode) *LNode) {
		scaleKinds = append(scaleKinds, scaleKind{name, "depth", b, nil})
	}
	L := func(name string, b func(g *Gen, n int, lf func(i int) *LNode) *LNode) {
		scaleKinds = append(scaleKinds, scaleKind{name, "length", b, nil})
	}
	listed := func(g *Gen, f func() *LNode) *LNode { return g.ctx(true, f) }

	// ---- widths
	W("filter.$in", func(g *Gen, n int, lf func(int) *LNode) *LNode {
		return g.find(listed(g, func() *LNode { return LO(g.FN(), LO("$in", LA(seqN(n, lf)...))) }))
	})
	W("filter.array-valued-field", func(g *Gen, n int, lf func(int) *LNode) *LNode {
		return g.find(listed(g, func() *LNode { return LO(g.FN(), LA(seqN(n, lf)...)) }))
	})
	W("filter.$all.nested-arrays", func(g *Gen, n int, lf func(int) *LNode) *LNode {
		return g.find(listed(g, func() *LNode {
			return LO(g.FN(), LO("$all", LA(seqN(n, func(i int) *LNode { return LA(lf(i), lf(i+1)) })...)))
		}))
	})
	W("filter.$or", func(g *Gen, n int, lf func(int) *LNode) *LNode {
		return g.find(listed(g, func() *LNode {
			return LO("$or", LA(seqN(n, func(i int) *LNode { return LO(g.fld(i), lf(i)) })...))
		}))
	})
	W("filter.members", func(g *Gen, n int, lf func(int) *LNode) *LNode {
		return g.find(listed(g, func() *LNode {
			o := LO()
			for i := 0; i < n; i++ {
				o.Add(g.fld(i), lf(i))
			}
			return o
		}))
	})
	W("pipeline.stages", func(g *Gen, n int, lf func(int) *LNode) *LNode {
		return g.agg(seqN(n, func(i int) *LNode {
			if i%3 == 2 {
				return LO("$addFields", LO(g.Fn(), LO("$concat", LA(g.ref(), lf(i)))))
			}
			return LO("$match", listed(g, func() *LNode { return LO(g.fld(i), lf(i)) }))
		})...)
	})
	W("pipeline.$lookup-stages", func(g *Gen, n int, lf func(int) *LNode) *LNode {
		return g.agg(seqN(n, func(i int) *LNode {
			return LO("$lookup", LO("from", g.auxColl(), "let", LO(fmt.Sprintf("v%d", i), lf(i)), "pipeline", LA(LO("$match", listed(g, func() *LNode { return LO(g.fld(i), lf(i+1)) }))), "as", LS("j").DC()))
		})...)
	})
	W("pipeline.$facet-members", func(g *Gen, n int, lf func(int) *LNode) *LNode {
		f := LO()
		for i := 0; i < n; i++ {
			f.Add(fmt.Sprintf("facet%d", i), LA(LO("$match", listed(g, func() *LNode { return LO(g.fld(i), lf(i)) }))))
		}
		return g.agg(LO("$facet", f))
	})
	W("pipeline.expr-operands", func(g *Gen, n int, lf func(int) *LNode) *LNode {
		return g.agg(LO("$addFields", LO(g.Fn(), LO("$concat", LA(append([]*LNode{g.ref()}, seqN(n, lf)...)...)))))
	})
	W("pipeline.$switch-branches", func(g *Gen, n int, lf func(int) *LNode) *LNode {
		return g.agg(LO("$project", LO(g.Fn(), LO("$switch", LO("branches", LA(seqN(n, func(i int) *LNode {
			return LO("case", LO("$eq", LA(g.ref(), lf(i))), "then", lf(i+1))
		})...), "default", lf(n))))))
	})
	W("pipeline.$search.compound.must", func(g *Gen, n int, lf func(int) *LNode) *LNode {
		return g.agg(LO("$search", LO("index", LS("default").Keep(), "compound", LO("must", LA(seqN(n, func(i int) *LNode {
			return LO("text", LO("query", g.sec(), "path", LS(g.uname()).DC()))
		})...)))))
	})
	W("update.updates", func(g *Gen, n int, lf func(int) *LNode) *LNode {
		return g.tail(LO("update", g.coll(), "updates", LA(seqN(n, func(i int) *LNode {
			return LO("q", listed(g, func() *LNode { return LO(g.fld(i), lf(i)) }), "u", listed(g, func() *LNode { return LO("$set", LO(g.fld(i), lf(i+1))) }), "multi", LB(false).DC())
		})...), "ordered", LB(true).Keep()))
	})
	W("update.$set-members", func(g *Gen, n int, lf func(int) *LNode) *LNode {
		set := LO()
		for i := 0; i < n; i++ {
			set.Add(g.fld(i), lf(i))
		}
		return g.tail(LO("findAndModify", g.coll(), "query", listed(g, func() *LNode { return LO(g.FN(), g.sec()) }), "update", listed(g, func() *LNode { return LO("$set", set) })))
	})
	W("update.$push.$each", func(g *Gen, n int, lf func(int) *LNode) *LNode {
		return g.tail(LO("update", g.coll(), "updates", LA(LO("q", LO(), "u", listed(g, func() *LNode {
			return LO("$push", LO(g.FN(), LO("$each", LA(seqN(n, lf)...))))
		})))))
	})
	W("update.arrayFilters", func(g *Gen, n int, lf func(int) *LNode) *LNode {
		return g.tail(LO("findAndModify", g.coll(), "query", LO(), "update", g.simpleUpdate(), "arrayFilters", listed(g, func() *LNode {
			return LA(seqN(n, func(i int) *LNode { return LO(g.fld(i), lf(i)) })...)
		})))
	})
	W("delete.deletes", func(g *Gen, n int, lf func(int) *LNode) *LNode {
		return g.tail(LO("delete", g.coll(), "deletes", LA(seqN(n, func(i int) *LNode {
			return LO("q", listed(g, func() *LNode { return LO(g.fld(i), lf(i)) }), "limit", LN("1").DC())
		})...)))
	})
	W("insert.documents", func(g *Gen, n int, lf func(int) *LNode) *LNode {
		return g.tail(LO("insert", g.coll(), "documents", LA(seqN(n, func(i int) *LNode {
			return listed(g, func() *LNode { return LO("_id", lf(i), g.fld(i), LA(lf(i+1), LO(g.FN(), lf(i+2)))) })
		})...)))
	})
	W("insert.document-members", func(g *Gen, n int, lf func(int) *LNode) *LNode {
		d := LO()
		for i := 0; i < n; i++ {
			d.Add(g.fld(i), lf(i))
		}
		return g.tail(LO("insert", g.coll(), "documents", LA(listed(g, func() *LNode { return d }))))
	})

	// numeric lists outside the zones (metrics, samples) and in a search stage (a query vector): KEEP literals
	scaleKinds = append(scaleKinds, scaleKind{"envelope.numeric-array", "width", func(g *Gen, n int, lf func(int) *LNode) *LNode {
		return g.find(listed(g, func() *LNode { return LO(g.FN(), g.sec()) }))
	}, func(c *Case, n int) {
		arr := LA()
		for i := 0; i < n; i++ {
			arr.Kids = append(arr.Kids, LN(hardNumbers[i%len(hardNumbers)]).Keep())
		}
		c.Attr.Add("samples", arr.Keep())
		nested := LA()
		for i := 0; i < n; i++ {
			nested.Kids = append(nested.Kids, LA(LN(hardNumbers[(i+3)%len(hardNumbers)]).Keep(), LN("1").Keep()).Keep())
		}
		c.Attr.Add("histogram", LO("buckets", nested.Keep()).Keep())
	}})
	W("pipeline.$vectorSearch.queryVector", func(g *Gen, n int, lf func(int) *LNode) *LNode {
		v := LA()
		for i := 0; i < n; i++ {
			v.Kids = append(v.Kids, g.scHardNum())
		}
		return g.agg(LO("$vectorSearch", LO("index", LS("vidx").Keep(), "path", LS("emb").DC(), "queryVector", v, "numCandidates", LN("150").Keep(), "limit", LN("10").Keep())))
	})

	// ---- depths: every level holds a secret of its own next to the inner level
	D("filter.embedded-documents", func(g *Gen, n int, lf func(int) *LNode) *LNode {
		return g.find(listed(g, func() *LNode {
			return nestN(n, LO(g.FN(), lf(0)), func(l int, in *LNode) *LNode { return LO(g.fld(l), lf(l), g.fld(l), in) })
		}))
	})
	D("filter.$and-$or", func(g *Gen, n int, lf func(int) *LNode) *LNode {
		return g.find(listed(g, func() *LNode {
			return nestN(n, LO(g.FN(), lf(0)), func(l int, in *LNode) *LNode {
				op := "$and"
				if l%2 == 0 {
					op = "$or"
				}
				return LO(op, LA(LO(g.fld(l), lf(l)), in))
			})
		}))
	})
	D("filter.$elemMatch", func(g *Gen, n int, lf func(int) *LNode) *LNode {
		return g.find(listed(g, func() *LNode {
			return nestN(n, LO(g.FN(), lf(0)), func(l int, in *LNode) *LNode {
				return LO(g.fld(l), LO("$elemMatch", in), g.fld(l), lf(l))
			})
		}))
	})
	D("filter.$not", func(g *Gen, n int, lf func(int) *LNode) *LNode {
		return g.find(listed(g, func() *LNode {
			return LO(g.FN(), nestN(n, LO("$eq", lf(0)), func(l int, in *LNode) *LNode { return LO("$not", in) }))
		}))
	})
	D("filter.nested-arrays", func(g *Gen, n int, lf func(int) *LNode) *LNode {
		return g.find(listed(g, func() *LNode {
			return LO(g.FN(), nestN(n, LA(lf(0)), func(l int, in *LNode) *LNode { return LA(lf(l), in) }))
		}))
	})
	D("filter.arrays-of-documents", func(g *Gen, n int, lf func(int) *LNode) *LNode {
		return g.find(listed(g, func() *LNode {
			return nestN(n, LO(g.FN(), lf(0)), func(l int, in *LNode) *LNode { return LO(g.fld(l), LA(lf(l), in)) })
		}))
	})
	D("filter.$expr.$cond", func(g *Gen, n int, lf func(int) *LNode) *LNode {
		return g.find(LO("$expr", nestN(n, LO("$eq", LA(g.ref(), lf(0))), func(l int, in *LNode) *LNode {
			if l%2 == 0 {
				return LO("$cond", LA(in, lf(l), g.ref()))
			}
			return LO("$cond", LO("if", in, "then", lf(l), "else", g.ref()))
		})))
	})
	D("pipeline.nested-$lookup", func(g *Gen, n int, lf func(int) *LNode) *LNode {
		inner := LA(LO("$match", listed(g, func() *LNode { return LO(g.FN(), lf(0)) })))
		return g.agg(nestN(n, inner, func(l int, in *LNode) *LNode {
			m := LO("$match", listed(g, func() *LNode { return LO(g.fld(l), lf(l)) }))
			if l%2 == 0 {
				return LA(m, LO("$unionWith", LO("coll", g.auxColl(), "pipeline", in)))
			}
			return LA(LO("$lookup", LO("from", g.auxColl(), "pipeline", in, "as", LS("j").DC())), m)
		}).Kids...)
	})
	D("pipeline.$map-$filter", func(g *Gen, n int, lf func(int) *LNode) *LNode {
		return g.agg(LO("$addFields", LO(g.Fn(), nestN(n, LO("$concat", LA(g.ref(), lf(0))), func(l int, in *LNode) *LNode {
			if l%2 == 0 {
				return LO("$filter", LO("input", g.ref(), "as", LS("x").DC(), "cond", LO("$and", LA(LO("$ne", LA(LS("$$x").DC(), lf(l))), in))))
			}
			return LO("$map", LO("input", LA(lf(l), g.ref()), "as", LS("x").DC(), "in", in))
		}))))
	})
	D("update.$set-embedded", func(g *Gen, n int, lf func(int) *LNode) *LNode {
		return g.tail(LO("update", g.coll(), "updates", LA(LO("q", listed(g, func() *LNode { return LO(g.FN(), g.sec()) }), "u", listed(g, func() *LNode {
			return LO("$set", LO(g.FN(), nestN(n, LO(g.FN(), lf(0)), func(l int, in *LNode) *LNode { return LO(g.fld(l), in, g.fld(l), LA(lf(l))) })))
		})))))
	})
	D("insert.alternating", func(g *Gen, n int, lf func(int) *LNode) *LNode {
		return g.tail(LO("insert", g.coll(), "documents", LA(listed(g, func() *LNode {
			return nestN(n, LO(g.FN(), lf(0)), func(l int, in *LNode) *LNode { return LO(g.fld(l), LA(in, lf(l))) })
		}))))
	})
	D("pipeline.$search.compound", func(g *Gen, n int, lf func(int) *LNode) *LNode {
		txt := func() *LNode { return LO("text", LO("query", g.sec(), "path", LS(g.uname()).DC())) }
		return g.agg(LO("$search", LO("index", LS("default").Keep(), "compound", nestN(n, LO("must", LA(txt())), func(l int, in *LNode) *LNode {
			cl := "should"
			if l%2 == 0 {
				cl = "filter"
			}
			return LO(cl, LA(txt(), LO("compound", in)))
		}))))
	})

	// ---- length of one literal (n bytes after the canary); the neighbours stay short
	pad := func(n int) string { return strings.Repeat("abcdefghijklmnopqrstuvwxyz0123456789-", n/37+1)[:n] }
	L("filter.string", func(g *Gen, n int, lf func(int) *LNode) *LNode {
		c := g.canary()
		return g.find(listed(g, func() *LNode {
			return LO(g.FN(), g.secret(LS(c+pad(n)), ClsStr, c), g.FN(), LO("$in", LA(g.sec(), func() *LNode { c2 := g.canary(); return g.secret(LS(pad(n)+c2), ClsStr, c2) }())))
		}))
	})
	L("pipeline.string", func(g *Gen, n int, lf func(int) *LNode) *LNode {
		c := g.canary()
		return g.agg(LO("$match", listed(g, func() *LNode { return LO(g.FN(), g.secret(LS(pad(n/2)+c+pad(n-n/2)), ClsStr, c)) })),
			LO("$addFields", LO(g.Fn(), LO("$concat", LA(g.ref(), func() *LNode { c2 := g.canary(); return g.secret(LS(c2+pad(n)), ClsStr, c2) }())))))
	})
	L("insert.email-and-wrappers", func(g *Gen, n int, lf func(int) *LNode) *LNode {
		c, c2, c3 := g.canary(), g.canary(), g.canary()
		return g.tail(LO("insert", g.coll(), "documents", LA(listed(g, func() *LNode {
			// an address longer than 254 bytes is not an e-mail address (RFC 5321); it is an ordinary string then
			cls := ClsEmail
			if len(c)+n+len("@mail.example.com") > 254 {
				cls = ClsStr
			}
			return LO(g.FN(), g.secret(LS(c+pad(n)+"@mail.example.com"), cls, c),
				g.FN(), LO("$date", g.secret(LS(c2+pad(n)), ClsDate, c2)),
				g.FN(), LO("$binary", LO("base64", g.secret(LS(c3+pad(n)), ClsBin, c3), "subType", LS("00").Keep())))
		}))))
	})
	// well-formed base64 payloads that decode to exactly n bytes (a UUID is 16, an MD5 16, a SHA-1 20, ...), and
	// ObjectId-like hex texts of n digits: a tool that looks at the decoded size / digit count sees every value
	wellFormedBin := func(g *Gen, n int) *LNode {
		g.nsec++
		b := make([]byte, n)
		for i := range b {
			b[i] = byte(37*i + 11*g.nsec + 5)
		}
		t := base64.StdEncoding.EncodeToString(b)
		can := t
		if n < 12 {
			can = "" // too short to be searched for
		}
		return LO("$binary", LO("base64", g.secret(LS(t), ClsBin, can), "subType", LS("04").Keep()))
	}
	L("filter.binary-payload-bytes", func(g *Gen, n int, lf func(int) *LNode) *LNode {
		return g.find(listed(g, func() *LNode {
			return LO(g.FN(), wellFormedBin(g, n), g.FN(), LO("$in", LA(wellFormedBin(g, n), g.sec())))
		}))
	})
	L("pipeline.binary-payload-bytes-and-hex-digits", func(g *Gen, n int, lf func(int) *LNode) *LNode {
		g.nsec++
		hx := strings.Repeat(fmt.Sprintf("%02x5f1e2d3c4b5a6978", g.nsec%256), n/18+1)[:n]
		can := hx
		if n < 12 {
			can = ""
		}
		return g.agg(LO("$match", listed(g, func() *LNode {
			return LO(g.FN(), wellFormedBin(g, n), g.FN(), LO("$oid", g.secret(LS(hx), ClsOid, can)))
		})))
	})
	L("field-name", func(g *Gen, n int, lf func(int) *LNode) *LNode {
		return g.find(listed(g, func() *LNode { return LO(FN("k"+pad(n)), g.sec(), g.FN(), LO(FN("n"+pad(n)), g.sec())) }))
	})
}

// scaleSizes: every size of a range, then the neighbourhoods of the powers of two up to the cap.
func scaleSizes(axis string, thorough bool) []int {
	var full, capN int
	switch axis {
	case "width":
		full, capN = 140, 1100
		if thorough {
			full, capN = 1100, 9000
		}
	case "depth":
		full, capN = 70, 300
		if thorough {
			full, capN = 300, 1200
		}
	default: // length in bytes
		full, capN = 1100, 70000
		if thorough {
			full, capN = 4200, 300000
		}
	}
	var s []int
	start := 1
	if axis == "length" {
		start = 0
	}
	for i := start; i <= full; i++ {
		s = append(s, i)
	}
	for p := 128; p <= capN; p *= 2 {
		for _, d := range []int{-1, 0, 1} {
			if v := p + d; v > full && v <= capN {
				s = append(s, v)
			}
		}
	}
	for _, v := range []int{100, 200, 500, 1000, 2000, 5000, 10000, 50000, 65535, 65536, 65537, 100000} {
		for _, d := range []int{-1, 0, 1} {
			if w := v + d; w > full && w <= capN {
				s = append(s, w)
			}
		}
	}
	return s
}

// genScaleCase: free choices = kind, size, leaf variant.  Gate 0, container 0.
func genScaleCase(x *X, o GenOpts) *Case {
	g := &Gen{x: x, o: o}
	if g.o.DB == "" {
		g.o.DB = "dbZq1"
	}
	if g.o.Coll == "" {
		g.o.Coll = "coQx7"
	}
	ki := x.Free(len(scaleKinds), "scale kind")
	k := scaleKinds[ki]
	sizes := scaleSizes(k.axis, o.ScaleThorough)
	n := sizes[x.Free(len(sizes), "size")]
	variant := 0
	if k.axis != "length" {
		variant = x.Free(nScaleVariants, "leaf variant")
	}
	g.note(fmt.Sprintf("scale:%s:%s=%d:variant%d", k.name, k.axis, n, variant))
	cmd := k.build(g, n, g.scaleLeafFn(variant))
	propagateLabels(cmd)
	// the focused literals (C02 re-assigns these): first, middle, last
	if m := len(g.secrets); m > 0 {
		g.focus = []*LNode{g.secrets[0]}
		if m > 2 {
			g.focus = append(g.focus, g.secrets[m/2])
		}
		if m > 1 {
			g.focus = append(g.focus, g.secrets[m-1])
		}
	}
	c := g.buildCase(0, cmd, 0, 0)
	if k.post != nil {
		k.post(c, n)
	}
	c.SlotName = "scale:" + k.name
	return c
}
