//go:build verif

package main

// G — the labelled grammar of MongoDB log lines (DESIGN.md 2.3, GRAMMAR.md).  Written from the
// MongoDB manual and the property statements, not from src/operators.go.  Every generated line is a
// tree of LNodes whose leaves carry labels (SECRET / KEEP / DONTCARE / FIELDREF / NS / IP).

import (
	"encoding/base64"
	"fmt"
	"strings"
)

// leaf kind masks
const (
	MStr = 1 << iota
	MNum
	MBool
	MNull
	MDate
	MOid
	MBin
	MAll = MStr | MNum | MBool | MNull | MDate | MOid | MBin
)

type GenOpts struct {
	Reps          bool     // restrict production menus to the class representatives (deep chains)
	LeafSet       int      // 0 = full leaf alphabet, 1 = reduced, 2 = minimal
	FieldNames    []string // pool of user field names (nil = default pool)
	DB, Coll      string   // namespace of the line
	AuxColls      []string // secondary collections ($lookup.from …)
	Slots         []int    // restrict to these slot numbers (nil = all)
	AllGates      bool     // also generate the gates outside the claim
	OneGate       bool     // only gate 0 / container 0 (used by deep layers)
	RichEnv       bool     // rich envelope (arrays of arrays of documents, escape-heavy strings)
	PlanSummary   string
	UnlistedNames []string // pool for field names in positions C15 does not list ($group / $project / $addFields keys, search paths)
	MatchPool     []string // C14: names that match the configured regexp (nil = feature off)
	NamePatterns  bool     // C14: a free choice of which generated names are taken from MatchPool
	Spellings     bool     // every case is also fed in 4 other JSON spellings of the same line; the outputs must be identical
	RootStage     string   // the first stage generated is this production, at no cost: the deviation budget is spent BELOW it ("$search", "$searchMeta", "$vectorSearch", "$lookup-pipeline", ...)
	Scale         bool     // the layer is a scale layer (zz_verif_scale.go): kind x size x leaf variant instead of slot x productions
	ScaleThorough bool     // scale layer: the larger size ranges
}

type Case struct {
	Root      *LNode
	Attr      *LNode
	Cmd       *LNode // the command document that carries the focus
	Gate      int
	Container int
	Slot      int
	SlotName  string
	InClaim   bool
	Secrets   []*LNode
	NSNodes   []*LNode
	DB, Coll  string
	Prods     []string
	Pattern   int
	HasNS     bool
	Focus     []*LNode
}

type Gen struct {
	x       *X
	o       GenOpts
	nsec    int
	secrets []*LNode
	nsNodes []*LNode
	top     bool // the stage being generated is a top-level pipeline stage
	fni     int
	uni     int
	prods   []string
	caseNo  int
	aux     int
	focus   []*LNode // the SECRET nodes produced by leaf() (the focused literals of the derivation)
	pattern int      // C14: which names match (see namePatterns)
	fnl     bool     // user field names generated now are in a position C15 lists (query / update / insert / sort / $match)
	rooted  bool     // the RootStage production has been placed
}

var defaultFieldNames = []string{"fld", "status", "createdAt", "owner", "tags", "qty", "score2", "addr"}

// namePatterns: which of the field names generated for a line (numbered in generation order: outer
// before inner, earlier siblings before later ones) are taken from the matching pool.
var namePatterns = []struct {
	name string
	sel  func(i int) bool
}{
	{"none", func(i int) bool { return false }},
	{"all", func(i int) bool { return true }},
	{"first", func(i int) bool { return i == 0 }},
	{"second", func(i int) bool { return i == 1 }},
	{"third", func(i int) bool { return i == 2 }},
	{"even", func(i int) bool { return i%2 == 0 }},
	{"odd", func(i int) bool { return i%2 == 1 }},
	{"all-but-first", func(i int) bool { return i > 0 }},
}

func (g *Gen) fname() string {
	if g.o.MatchPool != nil && namePatterns[g.pattern].sel(g.fni) {
		n := g.o.MatchPool[g.fni%len(g.o.MatchPool)]
		g.fni++
		return n
	}
	pool := g.o.FieldNames
	if pool == nil {
		pool = defaultFieldNames
	}
	n := pool[g.fni%len(pool)]
	if g.fni >= len(pool) {
		n = fmt.Sprintf("%s%d", n, g.fni/len(pool))
	}
	g.fni++
	return n
}

var defaultUnlistedNames = []string{"outA", "outB", "outC", "outD", "outE", "outF"}

// uname: a user field name for a position the field-name property does not list
func (g *Gen) uname() string {
	if g.o.MatchPool != nil {
		return g.fname() // C14: one numbering for all names on a path
	}
	pool := g.o.UnlistedNames
	if pool == nil {
		pool = defaultUnlistedNames
	}
	n := pool[g.uni%len(pool)]
	if g.uni >= len(pool) {
		n = fmt.Sprintf("%s%d", n, g.uni/len(pool))
	}
	g.uni++
	return n
}

func (g *Gen) FN() LKey {
	if g.fnl {
		return FN(g.fname())
	}
	return Fn(g.uname())
}
func (g *Gen) Fn() LKey { return Fn(g.uname()) }

// ref builds a "$field" reference.
func (g *Gen) ref() *LNode {
	return LS("$" + g.fname()).With(Label{K: LabFieldRef})
}

func (g *Gen) canary() string {
	g.nsec++
	return fmt.Sprintf("q7Z~%d~kX", g.nsec)
}

func (g *Gen) secret(n *LNode, class, canary string) *LNode {
	n.Lab = Label{K: LabSecret, Class: class, Canary: canary}
	g.secrets = append(g.secrets, n)
	return n
}

// sec is a filler secret: an ordinary ASCII string with its own canary.
func (g *Gen) sec() *LNode {
	c := g.canary()
	return g.secret(LS("val "+c), ClsStr, c)
}

func (g *Gen) secNum() *LNode {
	g.nsec++
	lit := fmt.Sprintf("-48151623%02d.5", g.nsec%100)
	return g.secret(LN(lit), ClsNum, lit)
}

func (g *Gen) ns(kind, name string) *LNode {
	n := LS(name).With(Label{K: LabNS, NSKind: kind})
	g.nsNodes = append(g.nsNodes, n)
	return n
}

func (g *Gen) auxColl() *LNode {
	pool := g.o.AuxColls
	if pool == nil {
		pool = []string{"auxKq1", "auxKq2", "auxKq3", "auxKq4"}
	}
	n := pool[g.aux%len(pool)]
	g.aux++
	return g.ns("coll", n)
}

func (g *Gen) note(p string) { g.prods = append(g.prods, p) }

// ---------------------------------------------------------------------------------------------
// leaves

type leafKind struct {
	name string
	mask int
	mk   func(g *Gen) *LNode
}

var leafKinds = []leafKind{
	{"str-ascii", MStr, func(g *Gen) *LNode { c := g.canary(); return g.secret(LS("Alice "+c+" Smith"), ClsStr, c) }},
	{"number-int", MNum, func(g *Gen) *LNode {
		g.nsec++
		lit := fmt.Sprintf("-4815162342%02d", g.nsec%100)
		return g.secret(LN(lit), ClsNum, lit)
	}},
	{"bool-true", MBool, func(g *Gen) *LNode { return g.secret(LB(true), ClsBool, "") }},
	{"email", MStr, func(g *Gen) *LNode {
		c := g.canary()
		return g.secret(LS("user."+c+"@mail.example.com"), ClsEmail, c)
	}},
	{"date", MDate, func(g *Gen) *LNode {
		g.nsec++
		d := fmt.Sprintf("2031-07-09T11:22:%02d.456Z", g.nsec%60)
		return LO("$date", g.secret(LS(d), ClsDate, d))
	}},
	{"oid", MOid, func(g *Gen) *LNode {
		g.nsec++
		o := fmt.Sprintf("5f1e2d3c4b5a69788796a5%02x", g.nsec%256)
		return LO("$oid", g.secret(LS(o), ClsOid, o))
	}},
	{"binary", MBin, func(g *Gen) *LNode {
		g.nsec++
		b := fmt.Sprintf("cTdaS2V5Q2FuYXJ5MDAwMDAw%04d", g.nsec%10000) // 28 characters: well-formed base64 without padding
		return LO("$binary", LO("base64", g.secret(LS(b), ClsBin, b), "subType", LS("04").Keep()))
	}},
	{"null", MNull, func(g *Gen) *LNode { return LNul().DC() }},
	{"str-dollar-inside", MStr, func(g *Gen) *LNode { c := g.canary(); return g.secret(LS("US$ 100 "+c+" $x"), ClsStr, c) }},
	// --- reduced set ends here (9) ---
	{"str-unicode", MStr, func(g *Gen) *LNode {
		c := g.canary()
		return g.secret(LS("Zoë 日本 "+c+" 😀 ñ"), ClsStr, c)
	}},
	{"str-digits", MStr, func(g *Gen) *LNode {
		g.nsec++
		c := fmt.Sprintf("90210555123498765%03d", g.nsec%1000)
		return g.secret(LS(c), ClsStr, c)
	}},
	{"str-json-escapes", MStr, func(g *Gen) *LNode {
		c := g.canary()
		return g.secret(LS("\"q\":{\\ / \b\f\n\r\t\u0001 <"+c+"> & '}"), ClsStr, c)
	}},
	{"str-empty", MStr, func(g *Gen) *LNode { return g.secret(LS(""), ClsStr, "") }},
	{"number-decimal", MNum, func(g *Gen) *LNode {
		g.nsec++
		lit := fmt.Sprintf("90807.125%02d", g.nsec%100)
		return g.secret(LN(lit), ClsNum, lit)
	}},
	{"number-exp", MNum, func(g *Gen) *LNode {
		g.nsec++
		lit := fmt.Sprintf("6.02%02de+23", g.nsec%100)
		return g.secret(LN(lit), ClsNum, lit)
	}},
	{"number-big", MNum, func(g *Gen) *LNode {
		g.nsec++
		lit := fmt.Sprintf("-90071992547409%02d", g.nsec%100)
		return g.secret(LN(lit), ClsNum, lit)
	}},
	{"bool-false", MBool, func(g *Gen) *LNode { return g.secret(LB(false), ClsBool, "") }},
	{"number-uint64-range", MNum, func(g *Gen) *LNode { // above the largest int64, within uint64
		g.nsec++
		lit := fmt.Sprintf("98765432101234567%02d", g.nsec%100)
		return g.secret(LN(lit), ClsNum, lit)
	}},
	{"date-offset", MDate, func(g *Gen) *LNode {
		g.nsec++
		d := fmt.Sprintf("2031-07-09T11:%02d:33+02:00", g.nsec%60)
		return LO("$date", g.secret(LS(d), ClsDate, d))
	}},
	{"date-nondate", MDate, func(g *Gen) *LNode {
		c := g.canary()
		return LO("$date", g.secret(LS("next tuesday "+c), ClsDate, c))
	}},
	{"oid-nonhex", MOid, func(g *Gen) *LNode {
		c := g.canary()
		return LO("$oid", g.secret(LS("not-hex-"+c), ClsOid, c))
	}},
	{"binary-subtype-first", MBin, func(g *Gen) *LNode {
		g.nsec++
		b := fmt.Sprintf("cTdaS2V5Q2FuYXJ5MDAwMDAw%04d", g.nsec%10000)
		return LO("$binary", LO("subType", LS("00").Keep(), "base64", g.secret(LS(b), ClsBin, b)))
	}},
	// contents shaped like the tool's own output: a literal that starts with the replacement text and '_' (the form
	// of a pseudonym) under each replacement the flag sets use, one that starts with a placeholder, and a valid
	// ciphertext under the harness key (what an earlier --encrypt run would have put there)
	{"str-like-default-pseudonym", MStr, func(g *Gen) *LNode { c := g.canary(); return g.secret(LS("REDACTED_"+c), ClsStr, c) }},
	{"str-like-custom-pseudonym", MStr, func(g *Gen) *LNode { c := g.canary(); return g.secret(LS(customReplacement+"_"+c), ClsStr, c) }},
	{"str-like-empty-replacement-pseudonym", MStr, func(g *Gen) *LNode { c := g.canary(); return g.secret(LS("_"+c), ClsStr, c) }},
	{"str-like-placeholder", MStr, func(g *Gen) *LNode { c := g.canary(); return g.secret(LS("REDACTED "+c), ClsStr, c) }},
	// ordinary strings that sit next to a class the tool treats specially: e-mail-shaped except for one character that
	// only Unicode case folding maps to ASCII (KELVIN SIGN, LONG S); an address with a display name, a mailto: prefix,
	// edge white space; a text that is not in Unicode normalisation form C; a bare IPv4 address with port
	{"str-email-lookalike-kelvin", MStr, func(g *Gen) *LNode { c := g.canary(); return g.secret(LS("jo\u212ae."+c+"@example.com"), ClsStr, c) }},
	{"str-email-lookalike-long-s", MStr, func(g *Gen) *LNode {
		c := g.canary()
		return g.secret(LS("acce\u017f\u017f."+c+"@example.com"), ClsStr, c)
	}},
	{"str-email-display-name", MStr, func(g *Gen) *LNode {
		c := g.canary()
		return g.secret(LS("Bob Builder <bob."+c+"@example.com>"), ClsStr, c)
	}},
	{"str-email-mailto", MStr, func(g *Gen) *LNode { c := g.canary(); return g.secret(LS("mailto:bob."+c+"@example.com"), ClsStr, c) }},
	{"str-email-edge-space", MStr, func(g *Gen) *LNode { c := g.canary(); return g.secret(LS(" bob."+c+"@example.com\n"), ClsStr, c) }},
	{"str-not-nfc", MStr, func(g *Gen) *LNode {
		c := g.canary()
		return g.secret(LS("Zoe\u0308 "+c+" \u212b \u1100\u1161"), ClsStr, c)
	}},
	{"str-ipv4-with-port", MStr, func(g *Gen) *LNode {
		g.nsec++
		ip := fmt.Sprintf("10.%d.%d.7:27017", 1+g.nsec/200%200, 1+g.nsec%200)
		return g.secret(LS(ip), ClsStr, ip)
	}},
	{"str-own-ciphertext", MStr, func(g *Gen) *LNode {
		g.nsec++
		ct, err := Encrypt([]byte(fmt.Sprintf("inner plaintext %d", g.nsec)), harnessKey)
		if err != nil {
			ct = []byte(fmt.Sprintf("no ciphertext available %d", g.nsec))
		}
		t := base64.StdEncoding.EncodeToString(ct)
		return g.secret(LS(t), ClsStr, t)
	}},
	{"str-long", MStr, func(g *Gen) *LNode {
		c := g.canary()
		return g.secret(LS(strings.Repeat("lorem ipsum ", 340)+c+strings.Repeat(" dolor", 600)), ClsStr, c)
	}},
}

const reducedLeaves = 9

// leaf is the focused literal: a free choice among the leaf kinds the position admits.
func (g *Gen) leaf(mask int) *LNode {
	var menu []int
	limit := len(leafKinds)
	if g.o.LeafSet == 1 {
		limit = reducedLeaves
	} else if g.o.LeafSet == 2 {
		limit = 3
	}
	for i := 0; i < limit; i++ {
		if leafKinds[i].mask&mask != 0 {
			menu = append(menu, i)
		}
	}
	if len(menu) == 0 {
		for i := range leafKinds {
			if leafKinds[i].mask&mask != 0 {
				menu = append(menu, i)
				break
			}
		}
	}
	k := menu[g.x.Free(len(menu), "leaf kind")]
	g.note("leaf:" + leafKinds[k].name)
	before := len(g.secrets)
	n := leafKinds[k].mk(g)
	g.focus = append(g.focus, g.secrets[before:]...)
	return n
}

// ---------------------------------------------------------------------------------------------
// modes

type prod struct {
	name string
	rep  bool // class representative (used by the deep layer)
	f    func(g *Gen) *LNode
}

func (g *Gen) pick(mode string, table []prod) *LNode {
	tab := table
	if g.o.Reps {
		tab = nil
		for _, p := range table {
			if p.rep {
				tab = append(tab, p)
			}
		}
	}
	i := g.x.Costly(len(tab), mode)
	g.note(mode + ":" + tab[i].name)
	return tab[i].f(g)
}

// arrVariant places x in an array in one of the sibling arrangements (free choice).
func (g *Gen) arrVariant(x *LNode, withRef bool) *LNode {
	n := 8
	if withRef {
		n = 10
	}
	switch g.x.Free(n, "array arrangement") {
	case 0:
		return LA(x)
	case 1:
		return LA(x, g.sec())
	case 2:
		return LA(g.sec(), x)
	case 3:
		return LA(LA(x))
	case 4:
		return LA(LNul().DC(), x)
	case 5:
		return LA(x, LO().DC())
	case 6:
		return LA(g.secNum(), x) // mixed-type array, number first
	case 7:
		return LA(LB(false).DC(), LA().DC(), x)
	case 8:
		return LA(g.ref(), x)
	default:
		return LA(x, g.ref())
	}
}

// objVariant places key:x in an object with sibling arrangements (free choice).
func (g *Gen) objVariant(k LKey, x *LNode) *LNode {
	switch g.x.Free(3, "sibling arrangement") {
	case 0:
		return LO(k, x)
	case 1:
		return LO(k, x, g.FN(), g.sec())
	default:
		return LO(g.FN(), g.sec(), k, x)
	}
}

// ---- Q
var qProds []prod
var qvProds []prod
var vProds []prod
var uProds []prod
var stProds []prod
var eProds []prod
var sProds []prod

func (g *Gen) ctx(listed bool, f func() *LNode) *LNode {
	save := g.fnl
	g.fnl = listed
	n := f()
	g.fnl = save
	return n
}
func (g *Gen) Q() *LNode  { return g.pick("Q", qProds) }
func (g *Gen) QV() *LNode { return g.pick("QV", qvProds) }
func (g *Gen) V() *LNode  { return g.pick("V", vProds) }
func (g *Gen) U() *LNode  { return g.pick("U", uProds) }
func (g *Gen) E() *LNode  { return g.ctx(false, func() *LNode { return g.pick("E", eProds) }) }
func (g *Gen) S() *LNode  { return g.ctx(false, func() *LNode { return g.pick("S", sProds) }) }
func (g *Gen) ST(top bool) *LNode {
	save := g.top
	g.top = top
	savef := g.fnl
	g.fnl = false
	var n *LNode
	if g.o.RootStage != "" && !g.rooted {
		g.rooted = true
		for _, p := range stProds {
			if p.name == g.o.RootStage {
				g.note("ST:" + p.name + "(root)")
				n = p.f(g)
			}
		}
	}
	if n == nil {
		n = g.pick("ST", stProds)
	}
	g.top, g.fnl = save, savef
	return n
}

// Eop: an operator expression (no bare literal, no array literal) — the form the manual prescribes
// for $sortByCount, $bucket.groupBy, $bucketAuto.groupBy and $replaceRoot.newRoot
func (g *Gen) Eop() *LNode {
	return g.ctx(false, func() *LNode {
		var tab []prod
		for _, p := range eProds {
			if p.name == "literal" || p.name == "array-literal" || (g.o.Reps && !p.rep) {
				continue
			}
			tab = append(tab, p)
		}
		i := g.x.Costly(len(tab), "Eop")
		g.note("Eop:" + tab[i].name)
		return tab[i].f(g)
	})
}

// QVop: operator documents only (no bare literal)
func (g *Gen) QVop() *LNode {
	tab := qvProds[1:]
	if g.o.Reps {
		tab = nil
		for _, p := range qvProds[1:] {
			if p.rep {
				tab = append(tab, p)
			}
		}
	}
	i := g.x.Costly(len(tab), "QVop")
	g.note("QVop:" + tab[i].name)
	return tab[i].f(g)
}

// D: inserted document
func (g *Gen) D() *LNode {
	d := LO("_id", g.V())
	switch g.x.Free(3, "document arrangement") {
	case 0:
		return d.Add(g.FN(), g.sec())
	case 1:
		return LO(g.FN(), g.sec()).Add("_id", d.Kids[0])
	default:
		return LO(g.FN(), d.Kids[0], g.FN(), LO(g.FN(), g.sec(), g.FN(), LA(g.sec(), LO(g.FN(), g.sec()))))
	}
}

func geoPoint(g *Gen) *LNode {
	return LO("type", LS("Point").DC(), "coordinates", LA(g.secNum(), g.secNum()))
}

func searchPath(g *Gen) *LNode {
	switch g.x.Free(4, "search path form") {
	case 0:
		return LS(g.uname()).DC()
	case 1:
		return LA(LS(g.uname()).DC(), LS(g.uname()).DC())
	case 2:
		return LO("value", LS(g.uname()).DC(), "multi", LS("mlt").DC())
	default:
		return LO("wildcard", LS(g.uname()+"*").DC())
	}
}

// strOrArr: a search query that may be a string or an array of strings
func (g *Gen) strOrArr() *LNode {
	if g.x.Free(2, "query string or array") == 0 {
		return g.leaf(MStr)
	}
	return LA(g.leaf(MStr), g.sec())
}

func init() {
	qProds = []prod{
		{"field", true, func(g *Gen) *LNode { return g.objVariant(g.FN(), g.QV()) }},
		{"dotted-field", true, func(g *Gen) *LNode { return LO(FN(g.fname()+"."+g.fname()), g.QV()) }},
		{"_id", false, func(g *Gen) *LNode { return LO(FN("_id"), g.QV()) }},
		{"vocab-word-field", false, func(g *Gen) *LNode {
			words := []string{"index", "score", "path", "type", "limit", "as", "subType", "numBuckets", "query", "value", "if", "then", "else", "step", "units", "filter", "size", "coll", "into", "from", "input", "near", "range", "text", "in"}
			return LO(FN(words[g.x.Free(len(words), "vocabulary word as field name")]), g.QV())
		}},
		{"$and", true, func(g *Gen) *LNode {
			if g.x.Free(2, "focus position") == 0 {
				return LO("$and", LA(g.Q()))
			}
			return LO("$and", LA(LO(g.FN(), g.sec()), g.Q()))
		}},
		{"$or", false, func(g *Gen) *LNode {
			if g.x.Free(2, "focus position") == 0 {
				return LO("$or", LA(g.Q(), LO(g.FN(), g.sec())))
			}
			return LO("$or", LA(LO(g.FN(), g.sec()), g.Q()))
		}},
		{"$nor", false, func(g *Gen) *LNode { return LO("$nor", LA(g.Q())) }},
		{"$expr", true, func(g *Gen) *LNode { return LO("$expr", g.E()) }},
		{"$text", false, func(g *Gen) *LNode {
			return LO("$text", LO("$search", g.leaf(MStr), "$language", LS("en").DC(), "$caseSensitive", LB(false).DC()))
		}},
		{"$where", false, func(g *Gen) *LNode { return LO("$where", g.leaf(MStr)) }},
		{"$comment", false, func(g *Gen) *LNode { return LO("$comment", LS("a comment").DC(), g.FN(), g.QV()) }},
		{"$jsonSchema", false, func(g *Gen) *LNode {
			return LO("$jsonSchema", LO("required", LA(LS("name")), "properties", LO("name", LO("bsonType", LS("string")))).DC(), g.FN(), g.QV())
		}},
		{"field+sibling-op", false, func(g *Gen) *LNode { return LO(g.FN(), g.QV(), "$or", LA(LO(g.FN(), g.sec()))) }},
	}
	cmpOp := func(op string) prod {
		return prod{op, op == "$eq", func(g *Gen) *LNode { return LO(op, g.V()) }}
	}
	arrOp := func(op string) prod {
		return prod{op, op == "$in", func(g *Gen) *LNode { return LO(op, g.arrVariant(g.V(), false)) }}
	}
	qvProds = []prod{
		{"literal", true, func(g *Gen) *LNode { return g.V() }},
		cmpOp("$eq"), cmpOp("$ne"), cmpOp("$gt"), cmpOp("$gte"), cmpOp("$lt"), cmpOp("$lte"),
		{"$gte+$lt", false, func(g *Gen) *LNode {
			if g.x.Free(2, "focus position") == 0 {
				return LO("$gte", g.V(), "$lt", g.sec())
			}
			return LO("$gte", g.sec(), "$lt", g.V())
		}},
		arrOp("$in"), arrOp("$nin"), arrOp("$all"),
		{"$not", true, func(g *Gen) *LNode { return LO("$not", g.QVop()) }},
		{"$not-regex", false, func(g *Gen) *LNode { return LO("$not", LO("$regex", g.leaf(MStr))) }},
		{"$elemMatch-Q", true, func(g *Gen) *LNode { return LO("$elemMatch", g.Q()) }},
		{"$elemMatch-op", false, func(g *Gen) *LNode { return LO("$elemMatch", g.QVop()) }},
		{"$regex", false, func(g *Gen) *LNode {
			if g.x.Free(2, "options position") == 0 {
				return LO("$regex", g.leaf(MStr), "$options", LS("i").DC())
			}
			return LO("$options", LS("i").DC(), "$regex", g.leaf(MStr))
		}},
		{"$exists", false, func(g *Gen) *LNode { return LO("$exists", LB(true).DC(), "$ne", g.V()) }},
		{"$type", false, func(g *Gen) *LNode { return LO("$type", LS("string").DC(), "$ne", g.V()) }},
		{"$size", false, func(g *Gen) *LNode { return LO("$size", LN("3").DC(), "$ne", g.V()) }},
		{"$mod", false, func(g *Gen) *LNode { return LO("$mod", LA(LN("4").DC(), LN("0").DC()), "$ne", g.V()) }},
		{"$bitsAllSet", false, func(g *Gen) *LNode { return LO("$bitsAllSet", LN("35").DC(), "$ne", g.V()) }},
		{"$geoWithin-geometry", false, func(g *Gen) *LNode {
			return LO("$geoWithin", LO("$geometry", LO("type", LS("Polygon").DC(), "coordinates", LA(LA(LA(g.secNum(), g.secNum()), LA(g.secNum(), g.leaf(MNum)), LA(g.secNum(), g.secNum()))))))
		}},
		{"$geoWithin-centerSphere", false, func(g *Gen) *LNode {
			return LO("$geoWithin", LO("$centerSphere", LA(LA(g.leaf(MNum), g.secNum()), LN("0.01").DC())))
		}},
		{"$geoWithin-box", false, func(g *Gen) *LNode {
			return LO("$geoWithin", LO("$box", LA(LA(g.leaf(MNum), g.secNum()), LA(g.secNum(), g.secNum()))))
		}},
		{"$geoIntersects", false, func(g *Gen) *LNode {
			return LO("$geoIntersects", LO("$geometry", LO("type", LS("Point").DC(), "coordinates", LA(g.leaf(MNum), g.secNum()))))
		}},
		{"$near", false, func(g *Gen) *LNode {
			return LO("$near", LO("$geometry", LO("type", LS("Point").DC(), "coordinates", LA(g.secNum(), g.leaf(MNum))), "$maxDistance", LN("500").DC()))
		}},
		{"$nearSphere", false, func(g *Gen) *LNode {
			return LO("$nearSphere", LO("$geometry", LO("type", LS("Point").DC(), "coordinates", LA(g.leaf(MNum), g.secNum())), "$minDistance", LN("5").DC()))
		}},
	}
	wrapStr := func(key string) prod {
		return prod{key, false, func(g *Gen) *LNode { return LO(key, g.leaf(MStr)) }}
	}
	vProds = []prod{
		{"scalar", true, func(g *Gen) *LNode { return g.leaf(MAll) }},
		wrapStr("$numberLong"), wrapStr("$numberDecimal"), wrapStr("$numberInt"), wrapStr("$numberDouble"),
		wrapStr("$uuid"), wrapStr("$symbol"), wrapStr("$code"),
		{"$timestamp", false, func(g *Gen) *LNode { return LO("$timestamp", LO("t", g.leaf(MNum), "i", g.secNum())) }},
		{"$regularExpression", false, func(g *Gen) *LNode {
			return LO("$regularExpression", LO("pattern", g.leaf(MStr), "options", LS("i").DC()))
		}},
		{"$date-numberLong", false, func(g *Gen) *LNode { return LO("$date", LO("$numberLong", g.leaf(MStr))) }},
		{"embedded-doc", true, func(g *Gen) *LNode { return g.objVariant(g.FN(), g.V()) }},
		{"array", true, func(g *Gen) *LNode { return g.arrVariant(g.V(), false) }},
		{"array-of-arrays", true, func(g *Gen) *LNode { return LA(LA(g.V()), LA(g.sec())) }},
		{"array-of-docs", true, func(g *Gen) *LNode { return LA(LO(g.FN(), g.V())) }},
		{"array-of-arrays-of-docs", false, func(g *Gen) *LNode { return LA(LA(LO(g.FN(), g.V()))) }},
		{"doc-with-empty", false, func(g *Gen) *LNode {
			return LO(g.FN(), LA().DC(), g.FN(), LO().DC(), g.FN(), g.V())
		}},
		{"minKey-sibling", false, func(g *Gen) *LNode {
			return LO(g.FN(), LO("$minKey", LN("1").DC()).DC(), g.FN(), g.V())
		}},
	}
	setLike := func(op string, rep bool) prod {
		return prod{op, rep, func(g *Gen) *LNode { return LO(op, g.objVariant(g.FN(), g.V())) }}
	}
	numOp := func(op string) prod {
		return prod{op, false, func(g *Gen) *LNode { return LO(op, LO(g.FN(), g.leaf(MNum))) }}
	}
	dcOp := func(op string, v func() *LNode) prod {
		return prod{op, false, func(g *Gen) *LNode { return LO(op, LO(g.FN(), v().DC()), "$set", LO(g.FN(), g.V())) }}
	}
	upStage := func(name string, f func(g *Gen) *LNode) prod {
		return prod{"pipeline-" + name, name == "$set", func(g *Gen) *LNode {
			st := f(g)
			if g.x.Free(2, "focus position") == 0 {
				return LA(st)
			}
			return LA(LO("$set", LO(g.Fn(), g.sec())), st)
		}}
	}
	uProds = []prod{
		setLike("$set", true), setLike("$setOnInsert", false), setLike("$min", false), setLike("$max", false),
		numOp("$inc"), numOp("$mul"),
		dcOp("$unset", func() *LNode { return LS("") }),
		dcOp("$rename", func() *LNode { return LS("newName") }),
		dcOp("$pop", func() *LNode { return LN("1") }),
		dcOp("$currentDate", func() *LNode { return LB(true) }),
		{"$bit", false, func(g *Gen) *LNode {
			return LO("$bit", LO(g.FN(), LO("and", LN("5").DC())), "$set", LO(g.FN(), g.V()))
		}},
		{"$push", true, func(g *Gen) *LNode { return LO("$push", LO(g.FN(), g.V())) }},
		{"$push-$each", true, func(g *Gen) *LNode {
			return LO("$push", LO(g.FN(), LO("$each", g.arrVariant(g.V(), false), "$position", LN("0").DC(), "$slice", LN("5").DC())))
		}},
		{"$addToSet", false, func(g *Gen) *LNode { return LO("$addToSet", LO(g.FN(), g.V())) }},
		{"$addToSet-$each", false, func(g *Gen) *LNode {
			return LO("$addToSet", LO(g.FN(), LO("$each", g.arrVariant(g.V(), false))))
		}},
		{"$pull", false, func(g *Gen) *LNode { return LO("$pull", LO(g.FN(), g.V())) }},
		{"$pull-op", false, func(g *Gen) *LNode { return LO("$pull", LO(g.FN(), g.QVop())) }},
		{"$pull-doc", false, func(g *Gen) *LNode { return LO("$pull", LO(g.FN(), LO(g.FN(), g.QV()))) }},
		{"$pullAll", false, func(g *Gen) *LNode { return LO("$pullAll", LO(g.FN(), g.arrVariant(g.V(), false))) }},
		{"replacement-doc", true, func(g *Gen) *LNode { return LO(g.FN(), g.V(), g.FN(), g.sec()) }},
		{"two-operators", false, func(g *Gen) *LNode {
			if g.x.Free(2, "focus position") == 0 {
				return LO("$set", LO(g.FN(), g.V()), "$inc", LO(g.FN(), g.secNum()))
			}
			return LO("$inc", LO(g.FN(), g.secNum()), "$set", LO(g.FN(), g.V()))
		}},
		{"positional", false, func(g *Gen) *LNode {
			f := g.fname()
			forms := []string{f + ".$", f + ".$[e]." + g.fname(), f + ".0", f + ".$[]"}
			return LO("$set", LO(FN(forms[g.x.Free(len(forms), "positional form")]), g.V()))
		}},
		upStage("$set", func(g *Gen) *LNode { return LO("$set", LO(g.Fn(), g.E())) }),
		upStage("$addFields", func(g *Gen) *LNode { return LO("$addFields", LO(g.Fn(), g.E())) }),
		upStage("$replaceWith", func(g *Gen) *LNode { return LO("$replaceWith", LO(g.Fn(), g.E())) }),
		upStage("$replaceRoot", func(g *Gen) *LNode { return LO("$replaceRoot", LO("newRoot", LO(g.Fn(), g.E()))) }),
		upStage("$project", func(g *Gen) *LNode { return LO("$project", LO(g.Fn(), g.E(), g.Fn(), LN("1").DC())) }),
	}

	acc := func(g *Gen) string {
		accs := []string{"$sum", "$avg", "$first", "$last", "$min", "$max", "$push", "$addToSet"}
		return accs[g.x.Free(len(accs), "accumulator")]
	}
	nested := func(g *Gen) *LNode { // nested pipeline array with the focus stage
		switch g.x.Free(2, "nested focus position") {
		case 0:
			return LA(g.ST(false))
		default:
			return LA(LO("$match", LO(g.FN(), g.sec())), g.ST(false))
		}
	}
	stProds = []prod{
		{"$match", true, func(g *Gen) *LNode { return LO("$match", g.ctx(true, g.Q)) }},
		{"$addFields", true, func(g *Gen) *LNode { return LO("$addFields", LO(g.Fn(), g.E())) }},
		{"$set", false, func(g *Gen) *LNode { return LO("$set", LO(g.Fn(), g.E())) }},
		{"$project", false, func(g *Gen) *LNode {
			return LO("$project", LO(g.Fn(), g.E(), g.Fn(), LN("1").DC(), "_id", LN("0").DC()))
		}},
		{"$group", true, func(g *Gen) *LNode {
			switch g.x.Free(3, "group focus") {
			case 0:
				return LO("$group", LO("_id", g.E(), g.Fn(), LO("$sum", LN("1").DC())))
			case 1:
				return LO("$group", LO("_id", g.ref(), g.Fn(), LO(acc(g), g.E())))
			default:
				return LO("$group", LO("_id", LO(g.Fn(), g.E()), g.Fn(), LO("$sum", LN("1").DC())))
			}
		}},
		{"$lookup-pipeline", true, func(g *Gen) *LNode {
			if g.x.Free(2, "lookup focus") == 0 {
				return LO("$lookup", LO("from", g.auxColl(), "let", LO("v1", g.ref()), "pipeline", nested(g), "as", LS("joined").DC()))
			}
			return LO("$lookup", LO("from", g.auxColl(), "let", LO("v1", g.E()), "pipeline", LA(LO("$match", LO(g.FN(), g.sec()))), "as", LS("joined").DC()))
		}},
		{"$graphLookup", false, func(g *Gen) *LNode {
			if g.x.Free(2, "graphLookup focus") == 0 {
				return LO("$graphLookup", LO("from", g.auxColl(), "startWith", g.E(), "connectFromField", LS("a").DC(), "connectToField", LS("b").DC(), "as", LS("out").DC(), "maxDepth", LN("3").DC()))
			}
			return LO("$graphLookup", LO("from", g.auxColl(), "startWith", g.ref(), "connectFromField", LS("a").DC(), "connectToField", LS("b").DC(), "as", LS("out").DC(), "restrictSearchWithMatch", g.Q()))
		}},
		{"$facet", true, func(g *Gen) *LNode {
			if g.x.Free(2, "facet arrangement") == 0 {
				return LO("$facet", LO("facetA", nested(g)))
			}
			return LO("$facet", LO("facetA", LA(LO("$match", LO(g.FN(), g.sec()))), "facetB", nested(g)))
		}},
		{"$unionWith-pipeline", false, func(g *Gen) *LNode {
			return LO("$unionWith", LO("coll", g.auxColl(), "pipeline", nested(g)))
		}},
		{"$bucket", false, func(g *Gen) *LNode {
			switch g.x.Free(4, "bucket focus") {
			case 0:
				return LO("$bucket", LO("groupBy", g.Eop(), "boundaries", LA(g.secNum(), g.secNum()), "default", g.sec()))
			case 1:
				return LO("$bucket", LO("groupBy", g.ref(), "boundaries", LA(g.leaf(MNum|MStr|MDate), g.secNum()), "default", g.sec()))
			case 2:
				return LO("$bucket", LO("groupBy", g.ref(), "boundaries", LA(g.secNum(), g.secNum()), "default", g.leaf(MStr|MNum)))
			default:
				return LO("$bucket", LO("groupBy", g.ref(), "boundaries", LA(g.secNum(), g.secNum()), "default", g.sec(), "output", LO(g.Fn(), LO(acc(g), g.E()))))
			}
		}},
		{"$bucketAuto", false, func(g *Gen) *LNode {
			if g.x.Free(2, "bucketAuto focus") == 0 {
				return LO("$bucketAuto", LO("groupBy", g.Eop(), "buckets", LN("4").DC()))
			}
			return LO("$bucketAuto", LO("groupBy", g.ref(), "buckets", LN("4").DC(), "output", LO(g.Fn(), LO(acc(g), g.E()))))
		}},
		{"$sortByCount", false, func(g *Gen) *LNode { return LO("$sortByCount", g.Eop()) }},
		{"$replaceRoot", false, func(g *Gen) *LNode { return LO("$replaceRoot", LO("newRoot", g.Eop())) }},
		{"$replaceWith", false, func(g *Gen) *LNode { return LO("$replaceWith", g.E()) }},
		{"$redact", false, func(g *Gen) *LNode {
			return LO("$redact", LO("$cond", LO("if", LO("$eq", LA(g.ref(), g.E())), "then", LS("$$DESCEND").DC(), "else", LS("$$PRUNE").DC())))
		}},
		{"$geoNear", false, func(g *Gen) *LNode {
			if g.x.Free(2, "geoNear focus") == 0 {
				return LO("$geoNear", LO("near", LO("type", LS("Point").DC(), "coordinates", LA(g.leaf(MNum), g.secNum())), "distanceField", LS("dist").DC(), "spherical", LB(true).DC()))
			}
			return LO("$geoNear", LO("near", geoPoint(g), "distanceField", LS("dist").DC(), "query", g.Q()))
		}},
		{"$merge-let", false, func(g *Gen) *LNode {
			if g.x.Free(2, "merge focus") == 0 {
				return LO("$merge", LO("into", g.auxColl(), "let", LO("v1", g.E()), "whenMatched", LS("merge").DC()))
			}
			return LO("$merge", LO("into", g.auxColl(), "whenMatched", LA(LO("$set", LO(g.Fn(), g.E()))), "whenNotMatched", LS("insert").DC()))
		}},
		{"$densify", false, func(g *Gen) *LNode {
			return LO("$densify", LO("field", LS("ts").DC(), "range", LO("step", LN("1").DC(), "unit", LS("hour").DC(), "bounds", LA(g.leaf(MDate|MNum), g.leaf(MDate|MNum)))))
		}},
		{"$fill", false, func(g *Gen) *LNode {
			return LO("$fill", LO("sortBy", LO(g.Fn(), LN("1").DC()), "output", LO(g.Fn(), LO("value", g.E()))))
		}},
		{"$setWindowFields", false, func(g *Gen) *LNode {
			if g.x.Free(2, "setWindowFields focus") == 0 {
				return LO("$setWindowFields", LO("partitionBy", g.E(), "sortBy", LO(g.Fn(), LN("1").DC()), "output", LO(g.Fn(), LO("$sum", g.ref(), "window", LO("documents", LA(LS("unbounded"), LS("current"))).DC()))))
			}
			return LO("$setWindowFields", LO("partitionBy", g.ref(), "sortBy", LO(g.Fn(), LN("1").DC()), "output", LO(g.Fn(), LO(acc(g), g.E(), "window", LO("documents", LA(LS("unbounded"), LS("current"))).DC()))))
		}},
		{"$documents", false, func(g *Gen) *LNode { return LO("$documents", LA(g.D())) }},
		{"$search", true, func(g *Gen) *LNode {
			idx := LS("defaultIdx")
			if g.top {
				idx.Keep()
			} else {
				idx.DC()
			}
			switch g.x.Free(3, "search arrangement") {
			case 0:
				return LO("$search", LO("index", idx).merge(g.S()))
			case 1:
				return LO("$search", g.S().merge(LO("index", idx, "highlight", LO("path", LS("bio").DC()).DC(), "count", LO("type", LS("total")).DC(), "returnStoredSource", LB(true).DC())))
			default:
				return LO("$search", g.S())
			}
		}},
		{"$search-tracking", false, func(g *Gen) *LNode {
			return LO("$search", LO("text", LO("query", g.sec(), "path", LS("bio").DC()), "tracking", LO("searchTerms", g.leaf(MStr))))
		}},
		{"$searchMeta", false, func(g *Gen) *LNode {
			idx := LS("metaIdx")
			if g.top {
				idx.Keep()
			} else {
				idx.DC()
			}
			switch g.x.Free(3, "searchMeta arrangement") {
			case 0:
				return LO("$searchMeta", LO("index", idx).merge(g.S()))
			case 1:
				return LO("$searchMeta", LO("index", idx, "facet", LO("operator", g.S(), "facets", LO("byTag", LO("type", LS("string").DC(), "path", LS("tags").DC(), "numBuckets", LN("5").DC())))))
			default:
				return LO("$searchMeta", LO("facet", LO("operator", g.S(), "facets", LO("byNum", LO("type", LS("number").DC(), "path", LS("qty").DC(), "boundaries", LA(LN("0"), LN("10")).DC(), "default", LS("other").DC()))), "count", LO("type", LS("total")).DC()))
			}
		}},
		{"$vectorSearch", false, func(g *Gen) *LNode {
			keepIf := func(n *LNode) *LNode {
				if g.top {
					return n.Keep()
				}
				return n.DC()
			}
			if g.x.Free(2, "vectorSearch focus") == 0 {
				return LO("$vectorSearch", LO("index", keepIf(LS("vecIdx")), "path", LS("embedding").DC(), "queryVector", LA(g.leaf(MNum), g.secNum(), g.secNum()), "numCandidates", keepIf(LN("150")), "limit", keepIf(LN("10"))))
			}
			return LO("$vectorSearch", LO("index", keepIf(LS("vecIdx")), "path", LS("embedding").DC(), "queryVector", LA(g.secNum(), g.secNum()), "numCandidates", keepIf(LN("150")), "limit", keepIf(LN("10")), "filter", g.Q(), "exact", LB(false).DC()))
		}},
		{"$rankFusion", false, func(g *Gen) *LNode {
			return LO("$rankFusion", LO("input", LO("pipelines", LO("p1", nested(g))), "combination", LO("weights", LO("p1", LN("1"))).DC()))
		}},
		{"unknown-stage", false, func(g *Gen) *LNode { return LO("$futureStage", LO(g.Fn(), g.V())) }},
	}

	binOp := func(op string, rep bool) prod {
		return prod{op, rep, func(g *Gen) *LNode { return LO(op, g.arrVariant(g.E(), true)) }}
	}
	unOp := func(op string) prod {
		return prod{op, false, func(g *Gen) *LNode {
			if g.x.Free(2, "unary form") == 0 {
				return LO(op, g.E())
			}
			return LO(op, LA(g.E()))
		}}
	}
	eProds = []prod{
		{"literal", true, func(g *Gen) *LNode { return g.V() }},
		{"$literal", false, func(g *Gen) *LNode { return LO("$literal", g.V()) }},
		binOp("$eq", true), binOp("$ne", false), binOp("$gt", false), binOp("$gte", false), binOp("$lt", false), binOp("$lte", false), binOp("$cmp", false),
		binOp("$add", false), binOp("$subtract", false), binOp("$multiply", false), binOp("$divide", false), binOp("$mod", false), binOp("$pow", false),
		binOp("$and", false), binOp("$or", false), binOp("$arrayElemAt", false), binOp("$concatArrays", false), binOp("$range", false), binOp("$indexOfArray", false),
		binOp("$concat", false), binOp("$ifNull", false), binOp("$setUnion", false), binOp("$split", false), binOp("$strcasecmp", false), binOp("$dateDiffX", false),
		{"$in-expr", false, func(g *Gen) *LNode { return LO("$in", LA(g.ref(), LA(g.E(), g.sec()))) }},
		unOp("$not"), unOp("$abs"), unOp("$ceil"), unOp("$floor"), unOp("$sqrt"), unOp("$trunc"), unOp("$isArray"), unOp("$reverseArray"), unOp("$objectToArray"),
		unOp("$size"), unOp("$type"), unOp("$toString"), unOp("$toLower"), unOp("$toUpper"), unOp("$toDate"), unOp("$toObjectId"), unOp("$sum"), unOp("$avg"), unOp("$first"), unOp("$last"), unOp("$year"), unOp("$mergeObjects"),
		{"$trim", false, func(g *Gen) *LNode { return LO("$trim", LO("input", g.E(), "chars", g.sec())) }},
		{"$dateToString", false, func(g *Gen) *LNode { return LO("$dateToString", LO("date", g.E(), "format", LS("%Y").DC())) }},
		{"$dateFromString", false, func(g *Gen) *LNode { return LO("$dateFromString", LO("dateString", g.E(), "format", LS("%Y").DC())) }},
		{"$regexMatch", false, func(g *Gen) *LNode {
			if g.x.Free(2, "regexMatch focus") == 0 {
				return LO("$regexMatch", LO("input", g.ref(), "regex", g.leaf(MStr), "options", LS("i").DC()))
			}
			return LO("$regexMatch", LO("input", g.E(), "regex", g.sec()))
		}},
		{"$replaceOne", false, func(g *Gen) *LNode {
			return LO("$replaceOne", LO("input", g.ref(), "find", g.E(), "replacement", g.sec()))
		}},
		{"$convert", false, func(g *Gen) *LNode {
			return LO("$convert", LO("input", g.ref(), "to", LS("int").DC(), "onError", g.E(), "onNull", g.sec()))
		}},
		{"$setField", false, func(g *Gen) *LNode {
			return LO("$setField", LO("field", LS("f").DC(), "input", LS("$$ROOT").DC(), "value", g.E()))
		}},
		{"$let", false, func(g *Gen) *LNode {
			if g.x.Free(2, "let focus") == 0 {
				return LO("$let", LO("vars", LO("v", g.E()), "in", LS("$$v").DC()))
			}
			return LO("$let", LO("vars", LO("v", g.ref()), "in", g.E()))
		}},
		{"$switch", false, func(g *Gen) *LNode {
			switch g.x.Free(3, "switch focus") {
			case 0:
				return LO("$switch", LO("branches", LA(LO("case", g.E(), "then", g.sec())), "default", g.sec()))
			case 1:
				return LO("$switch", LO("branches", LA(LO("case", LO("$eq", LA(g.ref(), g.sec())), "then", g.E())), "default", g.sec()))
			default:
				return LO("$switch", LO("branches", LA(LO("case", LO("$eq", LA(g.ref(), g.sec())), "then", g.sec())), "default", g.E()))
			}
		}},
		{"$cond-array", true, func(g *Gen) *LNode {
			switch g.x.Free(3, "cond focus") {
			case 0:
				return LO("$cond", LA(g.E(), g.sec(), g.sec()))
			case 1:
				return LO("$cond", LA(LO("$gt", LA(g.ref(), g.secNum())), g.E(), g.sec()))
			default:
				return LO("$cond", LA(LO("$gt", LA(g.ref(), g.secNum())), g.sec(), g.E()))
			}
		}},
		{"$cond-map", true, func(g *Gen) *LNode {
			switch g.x.Free(3, "cond focus") {
			case 0:
				return LO("$cond", LO("if", g.E(), "then", g.sec(), "else", g.sec()))
			case 1:
				return LO("$cond", LO("if", LO("$gt", LA(g.ref(), g.secNum())), "then", g.E(), "else", g.sec()))
			default:
				return LO("$cond", LO("if", LO("$gt", LA(g.ref(), g.secNum())), "then", g.sec(), "else", g.E()))
			}
		}},
		{"$map", false, func(g *Gen) *LNode {
			if g.x.Free(2, "map focus") == 0 {
				return LO("$map", LO("input", g.E(), "as", LS("it").DC(), "in", LS("$$it").DC()))
			}
			return LO("$map", LO("input", g.ref(), "as", LS("it").DC(), "in", g.E()))
		}},
		{"$filter", false, func(g *Gen) *LNode {
			if g.x.Free(2, "filter focus") == 0 {
				return LO("$filter", LO("input", g.E(), "as", LS("it").DC(), "cond", LO("$gt", LA(LS("$$it").DC(), g.secNum()))))
			}
			return LO("$filter", LO("input", g.ref(), "as", LS("it").DC(), "cond", g.E(), "limit", LN("2").DC()))
		}},
		{"$reduce", false, func(g *Gen) *LNode {
			switch g.x.Free(3, "reduce focus") {
			case 0:
				return LO("$reduce", LO("input", g.E(), "initialValue", g.sec(), "in", LS("$$value").DC()))
			case 1:
				return LO("$reduce", LO("input", g.ref(), "initialValue", g.E(), "in", LS("$$value").DC()))
			default:
				return LO("$reduce", LO("input", g.ref(), "initialValue", g.sec(), "in", g.E()))
			}
		}},
		{"$zip", false, func(g *Gen) *LNode {
			return LO("$zip", LO("inputs", LA(g.E(), g.ref()), "useLongestLength", LB(true).DC(), "defaults", LA(g.sec(), g.sec())))
		}},
		{"$sortArray", false, func(g *Gen) *LNode { return LO("$sortArray", LO("input", g.E(), "sortBy", LN("1").DC())) }},
		{"$firstN", false, func(g *Gen) *LNode { return LO("$firstN", LO("n", LN("2").DC(), "input", g.E())) }},
		{"sub-document", true, func(g *Gen) *LNode { return g.objVariant(g.Fn(), g.E()) }},
		{"array-literal", true, func(g *Gen) *LNode { return g.arrVariant(g.E(), true) }},
	}
	// operators with NAMED arguments (manual: every argument "can be any valid expression"): one production per operator;
	// a free choice says which argument carries the focus.  An argument that usually holds an enumerated keyword (unit,
	// timezone, format, startOfWeek, options, method, lang ...) holds, when focused, an expression that CHOOSES the keyword
	// by comparing a field with a client-supplied literal - that literal is user data like any other.
	type narg struct {
		name string
		kw   string // "" = an expression argument; otherwise the keyword the argument usually holds
	}
	named := []struct {
		op   string
		args []narg
	}{
		{"$dateAdd", []narg{{"startDate", ""}, {"unit", "day"}, {"amount", ""}, {"timezone", "UTC"}}},
		{"$dateSubtract", []narg{{"startDate", ""}, {"unit", "hour"}, {"amount", ""}, {"timezone", "Europe/Paris"}}},
		{"$dateDiff", []narg{{"startDate", ""}, {"endDate", ""}, {"unit", "week"}, {"timezone", "UTC"}, {"startOfWeek", "mon"}}},
		{"$dateTrunc", []narg{{"date", ""}, {"unit", "week"}, {"binSize", "#2"}, {"timezone", "UTC"}, {"startOfWeek", "sunday"}}},
		{"$dateFromParts", []narg{{"year", ""}, {"month", ""}, {"day", ""}, {"timezone", "UTC"}}},
		{"$dateToParts", []narg{{"date", ""}, {"timezone", "UTC"}, {"iso8601", "#true"}}},
		{"$dateToString-tz", []narg{{"date", ""}, {"format", "%Y-%m"}, {"timezone", "UTC"}, {"onNull", ""}}},
		{"$regexFind", []narg{{"input", ""}, {"regex", ""}, {"options", "i"}}},
		{"$regexFindAll", []narg{{"input", ""}, {"regex", ""}, {"options", "im"}}},
		{"$replaceAll", []narg{{"input", ""}, {"find", ""}, {"replacement", ""}}},
		{"$ltrim", []narg{{"input", ""}, {"chars", ""}}},
		{"$getField", []narg{{"field", "status"}, {"input", ""}}},
		{"$topN", []narg{{"n", "#2"}, {"sortBy", "#{}"}, {"output", ""}}},
		{"$percentile", []narg{{"input", ""}, {"p", "#[]"}, {"method", "approximate"}}},
		{"$function", []narg{{"body", ""}, {"args", ""}, {"lang", "js"}}},
	}
	for _, nd := range named {
		nd := nd
		eProds = append(eProds, prod{nd.op, false, func(g *Gen) *LNode {
			focus := g.x.Free(len(nd.args), "focused argument")
			kv := []any{}
			for i, a := range nd.args {
				var v *LNode
				switch {
				case a.kw == "" && i == focus:
					v = g.E()
				case a.kw == "":
					v = g.ref()
				case i == focus:
					// an expression that picks the keyword
					alt := LS(strings.TrimLeft(a.kw, "#") + "2").DC()
					v = LO("$cond", LA(LO("$eq", LA(g.ref(), g.leaf(MStr|MNum))), kwNode(a.kw), alt))
				default:
					v = kwNode(a.kw)
				}
				kv = append(kv, a.name, v)
			}
			return LO(strings.TrimSuffix(nd.op, "-tz"), LO(kv...))
		}})
	}

	sq := func(name string, extra func(g *Gen) []any) prod {
		return prod{name, name == "text", func(g *Gen) *LNode {
			var n *LNode
			if g.x.Free(2, "query/path order") == 0 {
				n = LO("query", g.strOrArr(), "path", searchPath(g))
			} else {
				n = LO("path", searchPath(g), "query", g.strOrArr())
			}
			if extra != nil {
				kv := extra(g)
				for i := 0; i+1 < len(kv); i += 2 {
					n.Add(kv[i], kv[i+1].(*LNode))
				}
			}
			return LO(name, n)
		}}
	}
	clause := func(g *Gen) *LNode {
		if g.x.Free(2, "clause focus") == 0 {
			return LA(g.S())
		}
		return LA(LO("text", LO("query", g.sec(), "path", LS("bio").DC())), g.S())
	}
	sProds = []prod{
		sq("text", func(g *Gen) []any {
			return []any{"fuzzy", LO("maxEdits", LN("1")).DC(), "score", LO("boost", LO("value", LN("2"))).DC()}
		}),
		sq("phrase", func(g *Gen) []any { return []any{"slop", LN("2").DC()} }),
		sq("autocomplete", func(g *Gen) []any { return []any{"tokenOrder", LS("any").DC()} }),
		sq("wildcard", func(g *Gen) []any { return []any{"allowAnalyzedField", LB(true).DC()} }),
		sq("regex", nil),
		{"queryString", false, func(g *Gen) *LNode {
			return LO("queryString", LO("defaultPath", LS("bio").DC(), "query", g.leaf(MStr)))
		}},
		{"equals", false, func(g *Gen) *LNode {
			if g.x.Free(2, "path/value order") == 0 {
				return LO("equals", LO("path", LS(g.uname()).DC(), "value", g.leaf(MStr|MBool|MNum|MDate|MOid|MNull|MBin)))
			}
			return LO("equals", LO("value", g.leaf(MStr|MBool|MNum|MDate|MOid|MBin), "path", LS(g.uname()).DC(), "score", LO("boost", LO("value", LN("2"))).DC()))
		}},
		{"in", false, func(g *Gen) *LNode {
			if g.x.Free(2, "in value form") == 0 {
				return LO("in", LO("path", LS(g.uname()).DC(), "value", LA(g.leaf(MStr|MNum|MDate|MOid|MBool|MBin), g.sec())))
			}
			return LO("in", LO("path", LS(g.uname()).DC(), "value", g.leaf(MStr|MNum|MDate|MOid|MBool|MBin)))
		}},
		{"range", false, func(g *Gen) *LNode {
			ops := []string{"gt", "gte", "lt", "lte"}
			op := ops[g.x.Free(4, "range bound")]
			return LO("range", LO("path", LS(g.uname()).DC(), op, g.leaf(MNum|MDate|MStr|MOid)))
		}},
		{"near", false, func(g *Gen) *LNode {
			if g.x.Free(2, "near origin form") == 0 {
				return LO("near", LO("path", LS(g.uname()).DC(), "origin", g.leaf(MDate|MNum), "pivot", LN("1000").DC()))
			}
			return LO("near", LO("path", LS(g.uname()).DC(), "origin", LO("type", LS("Point").DC(), "coordinates", LA(g.leaf(MNum), g.secNum())), "pivot", LN("1000").DC()))
		}},
		{"compound", true, func(g *Gen) *LNode {
			kinds := []string{"must", "mustNot", "should", "filter"}
			k := kinds[g.x.Free(4, "compound clause")]
			return LO("compound", LO(k, clause(g), "minimumShouldMatch", LN("1").DC()))
		}},
		{"compound-two", false, func(g *Gen) *LNode {
			return LO("compound", LO("must", LA(LO("text", LO("query", g.sec(), "path", LS("bio").DC()))), "filter", clause(g)))
		}},
		{"embeddedDocument", false, func(g *Gen) *LNode {
			return LO("embeddedDocument", LO("path", LS("items").DC(), "operator", g.S()))
		}},
		{"geoShape", false, func(g *Gen) *LNode {
			return LO("geoShape", LO("path", LS("loc").DC(), "relation", LS("within").DC(), "geometry", LO("type", LS("Point").DC(), "coordinates", LA(g.leaf(MNum), g.secNum()))))
		}},
		{"geoWithin", false, func(g *Gen) *LNode {
			switch g.x.Free(3, "geoWithin form") {
			case 0:
				return LO("geoWithin", LO("path", LS("loc").DC(), "circle", LO("center", LO("type", LS("Point").DC(), "coordinates", LA(g.leaf(MNum), g.secNum())), "radius", LN("100").DC())))
			case 1:
				return LO("geoWithin", LO("path", LS("loc").DC(), "box", LO("bottomLeft", geoPoint(g), "topRight", LO("type", LS("Point").DC(), "coordinates", LA(g.secNum(), g.leaf(MNum))))))
			default:
				return LO("geoWithin", LO("path", LS("loc").DC(), "geometry", LO("type", LS("Polygon").DC(), "coordinates", LA(LA(LA(g.leaf(MNum), g.secNum()), LA(g.secNum(), g.secNum()))))))
			}
		}},
		{"moreLikeThis", false, func(g *Gen) *LNode {
			if g.x.Free(2, "like form") == 0 {
				return LO("moreLikeThis", LO("like", LO(g.Fn(), g.V())))
			}
			return LO("moreLikeThis", LO("like", LA(LO(g.Fn(), g.V()), LO(g.Fn(), g.sec()))))
		}},
		{"span-term", false, func(g *Gen) *LNode {
			return LO("span", LO("term", LO("path", LS("bio").DC(), "query", g.leaf(MStr))))
		}},
		{"span-near", false, func(g *Gen) *LNode {
			return LO("span", LO("near", LO("clauses", LA(LO("term", LO("path", LS("bio").DC(), "query", g.leaf(MStr))), LO("term", LO("path", LS("bio").DC(), "query", g.sec()))), "slop", LN("3").DC(), "inOrder", LB(true).DC())))
		}},
		{"span-first", false, func(g *Gen) *LNode {
			return LO("span", LO("first", LO("operator", LO("term", LO("path", LS("bio").DC(), "query", g.leaf(MStr))), "endPositionLte", LN("4").DC())))
		}},
		{"exists+sibling", false, func(g *Gen) *LNode {
			return LO("compound", LO("must", LA(LO("exists", LO("path", LS("bio").DC())), LO("text", LO("query", g.leaf(MStr), "path", LS("bio").DC())))))
		}},
	}
}

// kwNode: the usual (don't-care) value of a keyword argument: "#…" spells a non-string (number, boolean, {}, []).
func kwNode(kw string) *LNode {
	switch kw {
	case "#true":
		return LB(true).DC()
	case "#{}":
		return LO("k", LN("1").DC()).DC()
	case "#[]":
		return LA(LN("0.5").DC()).DC()
	}
	if strings.HasPrefix(kw, "#") {
		return LN(kw[1:]).DC()
	}
	return LS(kw).DC()
}

// merge appends the members of o to n.
func (n *LNode) merge(o *LNode) *LNode {
	for i, k := range o.Keys {
		n.Keys = append(n.Keys, k)
		n.KeyLab = append(n.KeyLab, o.KeyLab[i])
		n.Kids = append(n.Kids, o.Kids[i])
	}
	return n
}
