//go:build verif

package main

// Fake Atlas endpoint (DESIGN.md 2.9): a RoundTripper that logs every request and answers from a
// script.  In child-cli mode it replaces http.DefaultTransport (which NewAtlasClient(nil) ends up
// using) and the real main() runs; the same type is used in-process for the library-level checks.

import (
	"bytes"
	"compress/gzip"
	"crypto/md5"
	"encoding/json"
	"errors"
	"fmt"
	"io"
	"net/http"
	"os"
	"regexp"
	"sort"
	"strings"
	"sync"
	"syscall"
)

const atlasHost = "cloud.mongodb.com"

// answers of the fake server
const (
	AnsDigest  = "digest"    // 401 + WWW-Authenticate: Digest … (only meaningful for an unauthenticated request)
	AnsOK      = "ok"        // 200 with the scripted body
	AnsBasic   = "basic"     // 401 + WWW-Authenticate: Basic realm=…
	Ans401     = "401"       // 401 without a challenge header
	Ans403     = "403"       // 403 with a JSON error body
	Ans404     = "404"       // 404 with a JSON error body
	Ans500Echo = "500echo"   // 500 whose body echoes the request line and all request headers
	AnsNetErr  = "neterr"    // transport error (connection reset before any header)
	AnsCut     = "cut"       // 200, body cut after Cut bytes (connection dropped mid-body)
	AnsBadDig  = "baddigest" // 401 with a malformed Digest challenge
	// several challenges in one 401 (RFC 7235 allows it); the client library looks at the first one
	AnsDigestBasic = "digest+basic" // unauthenticated: 401 offering Digest, then Basic
	AnsBasicDigest = "basic+digest" // unauthenticated: 401 offering Basic, then Digest
	Ans401Offer    = "401+offer"    // authenticated: 401 that offers a fresh Digest challenge and Basic (a gateway that refuses the digest response)
	Ans401Basic    = "401+basic"    // authenticated: 401 that offers Basic only
	// what a REPEATED request for a resource gets (a conforming client never repeats one)
	RetrySame = ""        // the same answer as the first time
	RetryFlow = "ok-flow" // the cooperative flow: challenge, then 200 with the complete body
)

// isChallenge: answers to an unauthenticated request that make the client library send a digest response
func isChallenge(ans string) bool { return ans == AnsDigest || ans == AnsDigestBasic }

type HostScript struct {
	Unauth  string `json:"unauth"`
	Auth    string `json:"auth"`
	Payload []byte `json:"payload"`
	Cut     int    `json:"cut"`
	Retry   string `json:"retry"` // answer to every repeated request (see RetrySame / RetryFlow / an Ans… constant)
}

type AtlasScript struct {
	Public, Private string
	ClusterUnauth   string
	ClusterAuth     string
	ClusterBody     string
	ClusterCut      int
	ClusterRetry    string
	Hosts           map[string]*HostScript
	KillAtRequest   int // child mode: the process dies (as if killed) when the request with this 1-based number arrives; 0 = never
}

type AtlasReq struct {
	Method  string              `json:"method"`
	URL     string              `json:"url"`
	Scheme  string              `json:"scheme"`
	Host    string              `json:"host"`
	Path    string              `json:"path"`
	Query   string              `json:"query"`
	Header  map[string][]string `json:"header"`
	Body    string              `json:"body"`
	Auth    string              `json:"auth"`    // "", "digest-ok", "digest-bad", "basic", "other"
	Kind    string              `json:"kind"`    // cluster | log | other
	LogHost string              `json:"logHost"` // for kind log
	Answer  string              `json:"answer"`
}

type fakeAtlas struct {
	mu     sync.Mutex
	script *AtlasScript
	log    []AtlasReq
	sink   string         // file to append the request log to (child mode)
	seen   map[string]int // requests per resource and authentication class
}

const fakeNonce, fakeRealm, fakeOpaque = "Zm9vYmFyMTIzNDU2Nzg5MA==", "MMS Public API", "5ccc069c403ebaf9f0171e9517f40e41"

var clusterRe = regexp.MustCompile(`^/api/atlas/v2/groups/([^/]*)/clusters/([^/]*)$`)
var logRe = regexp.MustCompile(`^/api/atlas/v2/groups/([^/]*)/clusters/([^/]*)/logs/mongodb\.gz$`)

type cutBody struct {
	r    io.Reader
	done bool
}

func (c *cutBody) Read(p []byte) (int, error) {
	n, err := c.r.Read(p)
	if err == io.EOF {
		return n, io.ErrUnexpectedEOF // the connection dropped before the announced length arrived
	}
	return n, err
}
func (c *cutBody) Close() error { return nil }

func md5hex(s string) string { return fmt.Sprintf("%x", md5.Sum([]byte(s))) }

var digParamRe = regexp.MustCompile(`(\w+)=(?:"([^"]*)"|([^,]*))`)

// checkDigest validates an Authorization: Digest header against the scripted key pair.
func (f *fakeAtlas) checkDigest(req *http.Request, h string) bool {
	p := map[string]string{}
	for _, m := range digParamRe.FindAllStringSubmatch(strings.TrimPrefix(h, "Digest "), -1) {
		if m[2] != "" {
			p[m[1]] = m[2]
		} else {
			p[m[1]] = m[3]
		}
	}
	if p["username"] != f.script.Public || p["nonce"] != fakeNonce || p["uri"] != req.URL.RequestURI() {
		return false
	}
	ha1 := md5hex(f.script.Public + ":" + fakeRealm + ":" + f.script.Private)
	ha2 := md5hex(req.Method + ":" + p["uri"])
	want := md5hex(ha1 + ":" + fakeNonce + ":" + p["nc"] + ":" + p["cnonce"] + ":" + p["qop"] + ":" + ha2)
	return p["response"] == want
}

func (f *fakeAtlas) RoundTrip(req *http.Request) (*http.Response, error) {
	f.mu.Lock()
	defer f.mu.Unlock()
	rec := AtlasReq{Method: req.Method, URL: req.URL.String(), Scheme: req.URL.Scheme, Host: req.URL.Host, Path: req.URL.EscapedPath(), Query: req.URL.RawQuery, Header: map[string][]string{}}
	for k, v := range req.Header {
		rec.Header[k] = append([]string(nil), v...)
	}
	if req.Body != nil {
		b, _ := io.ReadAll(req.Body)
		rec.Body = string(b)
	}
	authH := req.Header.Get("Authorization")
	switch {
	case authH == "":
	case strings.HasPrefix(authH, "Digest "):
		if f.checkDigest(req, authH) {
			rec.Auth = "digest-ok"
		} else {
			rec.Auth = "digest-bad"
		}
	case strings.HasPrefix(authH, "Basic "):
		rec.Auth = "basic"
	default:
		rec.Auth = "other"
	}
	var hs *HostScript
	ans := AnsNetErr
	var body []byte
	cut := -1
	retry := RetrySame
	if f.seen == nil {
		f.seen = map[string]int{}
	}
	if req.URL.Host == atlasHost && req.URL.Scheme == "https" {
		if m := clusterRe.FindStringSubmatch(req.URL.Path); m != nil {
			rec.Kind = "cluster"
			if rec.Auth == "" {
				ans = f.script.ClusterUnauth
			} else {
				ans = f.script.ClusterAuth
			}
			body = []byte(f.script.ClusterBody)
			cut = f.script.ClusterCut
			retry = f.script.ClusterRetry
		} else if m := logRe.FindStringSubmatch(req.URL.Path); m != nil {
			rec.Kind, rec.LogHost = "log", m[2]
			hs = f.script.Hosts[m[2]]
			if hs == nil {
				ans = Ans404
			} else {
				if rec.Auth == "" {
					ans = hs.Unauth
				} else {
					ans = hs.Auth
				}
				body, cut, retry = hs.Payload, hs.Cut, hs.Retry
			}
		} else {
			rec.Kind, ans = "other", Ans404
		}
	} else {
		rec.Kind = "foreign"
	}
	// a repeated request for the same resource (the client tries again after a failure)
	cls := "u"
	if rec.Auth != "" {
		cls = "a"
	}
	rkey := rec.Kind + "|" + rec.LogHost + "|" + cls
	f.seen[rkey]++
	if f.seen[rkey] > 1 && retry != RetrySame && (rec.Kind == "cluster" || rec.Kind == "log") {
		switch {
		case retry == RetryFlow && cls == "u":
			ans = AnsDigest
		case retry == RetryFlow:
			ans = AnsOK
		default:
			ans = retry
		}
	}
	if rec.Auth == "digest-bad" || rec.Auth == "other" {
		ans = Ans401 // a real server refuses a wrong digest
	}
	if rec.Auth == "basic" {
		ans = Ans401
	}
	if ans == "" {
		ans = AnsOK
	}
	rec.Answer = ans
	f.log = append(f.log, rec)
	if f.script.KillAtRequest > 0 && len(f.log) == f.script.KillAtRequest && f.sink != "" {
		// the run is interrupted here: no deferred function, no clean-up code gets to run
		if fh, err := os.OpenFile(f.sink, os.O_APPEND|os.O_CREATE|os.O_WRONLY, 0o644); err == nil {
			b, _ := json.Marshal(rec)
			fh.Write(append(b, '\n'))
			fh.Close()
		}
		syscall.Kill(os.Getpid(), syscall.SIGKILL)
		select {}
	}
	if f.sink != "" {
		if fh, err := os.OpenFile(f.sink, os.O_APPEND|os.O_CREATE|os.O_WRONLY, 0o644); err == nil {
			b, _ := json.Marshal(rec)
			fh.Write(append(b, '\n'))
			fh.Close()
		}
	}
	mk := func(code int, hdr http.Header, b io.ReadCloser, n int64) *http.Response {
		if hdr == nil {
			hdr = http.Header{}
		}
		return &http.Response{StatusCode: code, Status: fmt.Sprintf("%d %s", code, http.StatusText(code)), Proto: "HTTP/1.1", ProtoMajor: 1, ProtoMinor: 1, Header: hdr, Body: b, ContentLength: n, Request: req}
	}
	str := func(s string) (io.ReadCloser, int64) { return io.NopCloser(strings.NewReader(s)), int64(len(s)) }
	switch ans {
	case AnsNetErr:
		return nil, errors.New("read tcp 10.0.0.1:50000->10.0.0.2:443: read: connection reset by peer")
	case AnsDigest:
		b, n := str(`{"error":401,"reason":"Unauthorized","detail":"You are not authorized for this resource."}`)
		return mk(401, http.Header{"Www-Authenticate": {fmt.Sprintf(`Digest realm="%s", domain="", nonce="%s", algorithm=MD5, qop="auth", stale=false`, fakeRealm, fakeNonce)}, "Content-Type": {"application/json"}}, b, n), nil
	case AnsBadDig:
		b, n := str(`{"error":401}`)
		return mk(401, http.Header{"Www-Authenticate": {`Digest realm="x", nonce="y", unknownparam="z"`}}, b, n), nil
	case AnsBasic, Ans401Basic:
		b, n := str(`{"error":401,"reason":"Unauthorized"}`)
		return mk(401, http.Header{"Www-Authenticate": {`Basic realm="MMS Public API"`}}, b, n), nil
	case AnsDigestBasic, Ans401Offer:
		b, n := str(`{"error":401,"reason":"Unauthorized","detail":"You are not authorized for this resource."}`)
		return mk(401, http.Header{"Www-Authenticate": {fmt.Sprintf(`Digest realm="%s", domain="", nonce="%s", algorithm=MD5, qop="auth", stale=false`, fakeRealm, fakeNonce), `Basic realm="MMS Public API"`}, "Content-Type": {"application/json"}}, b, n), nil
	case AnsBasicDigest:
		b, n := str(`{"error":401,"reason":"Unauthorized"}`)
		return mk(401, http.Header{"Www-Authenticate": {`Basic realm="MMS Public API"`, fmt.Sprintf(`Digest realm="%s", domain="", nonce="%s", algorithm=MD5, qop="auth", stale=false`, fakeRealm, fakeNonce)}}, b, n), nil
	case Ans401:
		b, n := str(`{"error":401,"reason":"Unauthorized"}`)
		return mk(401, nil, b, n), nil
	case Ans403:
		b, n := str(`{"error":403,"reason":"Forbidden","detail":"IP address not on the access list"}`)
		return mk(403, nil, b, n), nil
	case Ans404:
		b, n := str(`{"error":404,"reason":"Not Found","errorCode":"RESOURCE_NOT_FOUND"}`)
		return mk(404, nil, b, n), nil
	case Ans500Echo:
		var sb strings.Builder
		fmt.Fprintf(&sb, "Internal error while handling %s %s\n", req.Method, req.URL.String())
		keys := make([]string, 0, len(req.Header))
		for k := range req.Header {
			keys = append(keys, k)
		}
		sort.Strings(keys)
		for _, k := range keys {
			fmt.Fprintf(&sb, "%s: %s\n", k, strings.Join(req.Header[k], ", "))
		}
		b, n := str(sb.String())
		return mk(500, nil, b, n), nil
	case AnsCut:
		if cut < 0 || cut > len(body) {
			cut = len(body) / 2
		}
		return mk(200, nil, &cutBody{r: bytes.NewReader(body[:cut])}, int64(len(body))), nil
	default: // AnsOK
		return mk(200, nil, io.NopCloser(bytes.NewReader(body)), int64(len(body))), nil
	}
}

// installChildSeams: child-cli mode.  With VERIF_ATLAS_SCRIPT set, http.DefaultTransport becomes the
// scripted endpoint; every request is appended to VERIF_ATLAS_LOG.  Without it, DefaultTransport refuses
// everything (and logs), so that no check can ever reach the network.
func installChildSeams() {
	f := &fakeAtlas{script: &AtlasScript{}, sink: os.Getenv("VERIF_ATLAS_LOG")}
	if p := os.Getenv("VERIF_ATLAS_SCRIPT"); p != "" {
		b, err := os.ReadFile(p)
		if err != nil {
			fmt.Fprintln(os.Stderr, "verif child: cannot read script:", err)
			os.Exit(97)
		}
		if err := json.Unmarshal(b, f.script); err != nil {
			fmt.Fprintln(os.Stderr, "verif child: bad script:", err)
			os.Exit(97)
		}
	}
	http.DefaultTransport = f
}

// ---- payload builders
func gzBytes(parts ...[]byte) []byte {
	var out bytes.Buffer
	for _, p := range parts {
		w := gzip.NewWriter(&out)
		w.Write(p)
		w.Close()
	}
	return out.Bytes()
}

func clusterBodyFor(hosts []string, withPorts []bool, srv bool) string {
	var hp []string
	for i, h := range hosts {
		if withPorts[i%len(withPorts)] {
			hp = append(hp, fmt.Sprintf("%s:%d", h, 27017+i))
		} else {
			hp = append(hp, h)
		}
	}
	std := "mongodb://" + strings.Join(hp, ",") + "/?ssl=true&authSource=admin&replicaSet=atlas-abc-shard-0"
	if srv {
		std = "mongodb+srv://" + hosts[0] + "/?retryWrites=true"
	}
	b, _ := json.Marshal(map[string]any{"clusterType": "REPLICASET", "name": "c", "connectionStrings": map[string]any{"standard": std, "standardSrv": "mongodb+srv://clu.abcde.mongodb.net"}, "mongoDBVersion": "8.0.4"})
	return string(b)
}
