//go:build verif

package main

func installChildSeams() {}
