//go:build verif

package main

// C02 — the output is independent of the redacted values (non-interference, by self-composition):
// every re-assignment of the SECRET leaves of a line within their lexical class must produce the
// byte-identical output line.

import (
	"fmt"
	"strings"
)

var c02Alphabet = map[string][]string{
	ClsStr: {"a", "", "Zoë 日本 😀", "with \"quotes\" \\ and \n newline <>& \u0001", "not@an email", "12345", "US$5 $x", "true", strings.Repeat("long value ", 120), "REDACTED_0123456789abcdef", customReplacement + "_x", "REDACTED",
		"jo\u212ae@example.com", "acce\u017f\u017f@example.com", "Bob <bob@example.com>", "mailto:bob@example.com", " bob@example.com", "bob@example.com\n", "Zoe\u0308", "Zo\u00eb", "10.1.2.3:27017"},
	ClsEmail: {"a.b+c@sub.domain.org", "x@y.co", "USER_1@EXAMPLE.COM", strings.Repeat("l", 60) + "@" + strings.Repeat("d", 40) + ".example.org"},
	ClsDate:  {"2024-01-01T00:00:00Z", "1999-12-31T23:59:59.999+05:30", "not a date", ""},
	ClsOid:   {"000000000000000000000001", "ffffffffffffffffffffffff", "xyz", ""},
	ClsBin:   {"AA==", "SGVsbG8gd29ybGQ=", "", "not base64 !"},
	ClsNum:   {"0", "1", "-1", "9223372036854775808", "1e-9", "1.50e+3"},
}

func c02Set(n *LNode, class, alt string) {
	switch class {
	case ClsNum:
		n.Num = alt
	default:
		n.Str = alt
	}
}

// c02LineTokens: texts that occur on the line in another role (user field names, a dotted path of two of them, the
// collection, the database, the namespace, the first operator key and the command verb).
func c02LineTokens(cs *Case) []string {
	var names, ops []string
	seen := map[string]bool{}
	cs.Root.Walk(nil, func(path []string, n *LNode) {
		if n.Kind != JObj {
			return
		}
		for i, k := range n.Keys {
			if seen[k] || k == "" {
				continue
			}
			seen[k] = true
			if i < len(n.KeyLab) && (n.KeyLab[i] == KeyFN || n.KeyLab[i] == KeyFn) {
				names = append(names, k)
			} else if strings.HasPrefix(k, "$") && len(ops) < 1 {
				ops = append(ops, strings.TrimLeft(k, "$")) // without the '$': with it the text would be a field reference, another class
			}
		}
	})
	var t []string
	if len(names) > 0 {
		t = append(t, names[0])
	}
	if len(names) > 1 {
		t = append(t, names[len(names)-1], names[0]+"."+names[len(names)-1])
	}
	if cs.Coll != "" {
		t = append(t, cs.Coll, cs.DB, cs.DB+"."+cs.Coll)
	}
	t = append(t, ops...)
	if cs.Cmd != nil && len(cs.Cmd.Keys) > 0 {
		t = append(t, cs.Cmd.Keys[0])
	}
	return t
}

// c02Streams: non-interference on the real stream code.  A three-line input whose first line holds the secret, for
// every content of the alphabet plus contents that are hostile to anything that frames lines or tracks strings by
// hand (ending in a backslash, unbalanced quotes / brackets, an escaped line break, a line-sized text): the output of the
// WHOLE stream must be the same bytes whatever the secret is.
func c02Streams(c *Ctx) {
	if c.Shard != 0 {
		return
	}
	tw := twinAlphabet()
	follow1, follow2 := tw[6].Text, tw[0].Text // a find line and a getMore line of the twin alphabet
	mk := func(s string) string {
		return LO("t", LO("$date", LS("2024-05-01T10:00:00.123+00:00")), "s", LS("I"), "c", LS("COMMAND"), "id", LN("1"), "ctx", LS("c"), "msg", LS("Slow query"),
			"attr", LO("ns", LS("d.c"), "command", LO("find", LS("c"), "filter", LO("p", LS(s), "q", LO("$in", LA(LS(s), LS("second "+s)))), "$db", LS("d")))).JSON()
	}
	hostile := []string{"ends with a backslash \\", "\\", "two at the end \\\\", "quote at the end \"", "\\\"", "open { [ \" brackets", "} ] closes", "line\nbreak", "cr\r\nlf", "tab\t", "{\"c\":\"COMMAND\"}", "\u2028 \u2029 \u0085", strings.Repeat("x", 5000) + "\\"}
	contents := append(append([]string{}, c02Alphabet[ClsStr]...), hostile...)
	for _, fl := range []Flags{{}, {N: true, B: true, I: true}} {
		fl.Apply()
		for _, ch := range []string{"reader", "gzfile"} {
			var base string
			for i, s := range contents {
				if strings.HasPrefix(s, "$") {
					continue
				}
				text := mk(s) + "\n" + follow1 + "\n" + follow2 + "\n"
				out, err, pv := c06RunInproc(text, 3, ch, "nobar")
				c.Eval(1)
				c.Distinct(fmt.Sprintf("c02stream|%s|%s|%d", fl, ch, i))
				if pv != nil || err != nil {
					c.Violate("stream-dependence:abort", fmt.Sprintf("a three-line stream whose first line holds the literal %q, flags [%s], %s: the run aborts (%v %v)", trunc(s, 40), fl, ch, err, pv), int64(i), map[string]any{"kind": "c02-stream", "secret": s, "flags": fl.String()}, nil)
					continue
				}
				if i == 0 {
					base = out
					continue
				}
				if out != base {
					c.Violate("stream-dependence:output-differs", fmt.Sprintf("two three-line streams that differ only in a redacted literal of the first line (%q vs %q), flags [%s], %s: the outputs differ (%d vs %d lines)", trunc(contents[0], 40), trunc(s, 40), fl, ch, strings.Count(base, "\n"), strings.Count(out, "\n")), int64(i),
						map[string]any{"kind": "c02-stream", "secret": s, "flags": fl.String(), "out_a": base, "out_b": out}, nil)
				}
			}
		}
	}
	Flags{}.Apply()
}

func c02Run(c *Ctx) {
	c02Streams(c)
	ns := "dbZq1.coQx7"
	flagsQ := []Flags{{N: true, B: true}, {I: true, W: true, R: customReplacement, F: []string{ns}}}
	flagsT := []Flags{{}, {N: true, B: true}, {I: true, W: true, R: customReplacement, F: []string{ns}}, {N: true, B: true, F: []string{ns}, REmpty: true}, {N: true}, {B: true}, {R: "x@y.zz"}, {W: true, F: []string{ns}}}
	layers := []sweepLayer{
		{"L0", GenOpts{LeafSet: 1}, 0, nil},
		{"L1", GenOpts{OneGate: true, LeafSet: 1}, 1, nil},
	}
	layers = append(layers, sweepLayer{"scale", GenOpts{Scale: true, ScaleThorough: c.Thorough()}, 0, nil})
	if c.Thorough() {
		layers = append(layers, rootedLayers(false, nil)...) // two search operators below the stage (the thorough tier's own L2 is rooted at the slot)
	} else {
		layers = append(layers, sweepLayer{"rooted:$search", GenOpts{OneGate: true, LeafSet: 1, Slots: []int{4}, RootStage: "$search"}, 1, nil})
	}
	fsets := flagsQ
	if c.Thorough() {
		layers = append(layers, sweepLayer{"L2", GenOpts{OneGate: true, LeafSet: 1}, 2, nil})
		fsets = flagsT
	}
	// the length of a redacted literal must not reach the output through the real line reader either: every line
	// length up to past the reader's limit, the length being that of a SECRET
	streamLenSweep(c, "C02", []string{"secret-pad"}, Flags{})
	sweep(c, layers, func(sc *sweepCase) bool {
		cs := sc.C
		if !cs.InClaim {
			return false
		}
		var live []*LNode
		for _, s := range cs.Secrets {
			if s.Lab.K == LabSecret {
				live = append(live, s)
			}
		}
		if len(live) == 0 {
			return false
		}
		c.Distinct(sc.Line)
		focus := map[*LNode]bool{}
		for _, f := range cs.Focus {
			focus[f] = true
		}
		// save originals
		type orig struct {
			str, num string
			b        bool
		}
		saved := map[*LNode]orig{}
		for _, s := range live {
			saved[s] = orig{s.Str, s.Num, s.Bool}
		}
		restore := func() {
			for _, s := range live {
				o := saved[s]
				s.Str, s.Num, s.Bool = o.str, o.num, o.b
			}
		}
		// contents taken from the line itself: a secret may happen to equal a field name, a dotted path of field names,
		// the collection, the namespace, an operator of the line (anything the tool keeps a table of)
		strAlphabet := append(append([]string{}, c02Alphabet[ClsStr]...), c02LineTokens(cs)...)
		for _, fl := range fsets {
			fl.Apply()
			base, okb, pvb := redactLine(sc.Line)
			c.Eval(1)
			if pvb != nil {
				c.Count("skipped_panics", 1)
				continue
			}
			// variants: enumerated by the explorer over (filler assignment) x (content of each focus leaf)
			var desc string
			var varied *LNode
			body := func(x *X) {
				restore()
				desc, varied = "", nil
				fa := x.Free(3, "filler assignment")
				if fa == 2 {
					// every string-typed secret that is not e-mail-shaped takes the SAME text, whatever its
					// class (ordinary string, $date, $oid, $binary.base64): equality across classes
					for _, s := range live {
						switch s.Lab.Class {
						case ClsStr, ClsDate, ClsOid, ClsBin:
							s.Str = "5f1e2d3c4b5a69788796a5ff"
						}
					}
					desc = "all non-e-mail string literals made equal; "
				}
				if fa == 1 {
					k := 0
					for _, s := range live {
						if focus[s] {
							continue
						}
						switch s.Lab.Class {
						case ClsNum:
							if fl.N {
								c02Set(s, ClsNum, c02Alphabet[ClsNum][k%6])
							}
						case ClsBool:
						default:
							a := c02Alphabet[s.Lab.Class]
							c02Set(s, s.Lab.Class, a[(k+3)%len(a)])
						}
						k++
					}
					desc = "fillers re-assigned; "
				}
				for _, s := range live {
					if !focus[s] {
						continue
					}
					switch s.Lab.Class {
					case ClsBool:
						if fl.B {
							if x.Costly(2, "boolean content") == 1 {
								s.Bool = !s.Bool
								desc += "boolean flipped; "
								varied = s
							}
						}
					case ClsNum:
						if fl.N {
							a := c02Alphabet[ClsNum]
							if k := x.Costly(len(a)+1, "number content"); k > 0 {
								s.Num = a[k-1]
								desc += "number := " + a[k-1] + "; "
								varied = s
							}
						}
					default:
						a := c02Alphabet[s.Lab.Class]
						if s.Lab.Class == ClsStr {
							a = strAlphabet
						}
						if k := x.Costly(len(a)+1, "string content"); k > 0 {
							s.Str = a[k-1]
							desc += fmt.Sprintf("%s := %q; ", s.Lab.Class, trunc(a[k-1], 40))
							varied = s
						}
					}
				}
			}
			// scale layer: the joint re-assignments only (all secrets equal / all re-assigned) for widths and depths,
			// plus every single re-assignment of the long literal for the length kinds
			bound := 2
			if sc.Layer == "scale" {
				bound = 0
				if len(cs.Prods) > 0 && strings.Contains(cs.Prods[0], ":length=") {
					bound = 1
				}
			}
			Explore(body, ExploreOpts{Bound: bound}, func(x *X) {
				if desc == "" {
					return // the unchanged line
				}
				line2 := cs.Root.JSON()
				out2, ok2, pv2 := redactLine(line2)
				c.Eval(1)
				if pv2 != nil {
					c.Count("skipped_panics", 1)
					return
				}
				if ok2 != okb || out2 != base {
					loc := "fillers"
					if varied != nil {
						loc = sigPath(cs.Cmd, varied) + ":" + varied.Lab.Class
					}
					d := desc
					c.Violate("dependence:"+loc, fmt.Sprintf("two lines that differ only in redacted values (%s) give different outputs under flags [%s]; slot %s; line A: %s", d, fl, cs.SlotName, trunc(sc.Line, 500)),
						int64(len(sc.Line)), replayOf(sc, fl, map[string]any{"line_b": line2, "out_a": base, "out_b": out2, "varied": d}),
						func() bool {
							fl.Apply()
							a, _, _ := redactLine(sc.Line)
							b, _, _ := redactLine(line2)
							return a != b
						})
					c.Outcome("differs")
				} else {
					c.Outcome("identical")
				}
			})
			restore()
		}
		if c.P.Evaluations < 40 {
			c.Sample(map[string]any{"slot": cs.SlotName, "productions": cs.Prods, "line": trunc(sc.Line, 900)})
		}
		return false
	}, nil)
}

func init() {
	register(&PropDef{
		ID: "C02", Level: "exploration",
		Rule:        "three-line streams on the real stream code whose first line holds every content of the string alphabet and 13 contents hostile to line framing (ending in a backslash, unbalanced quotes / brackets, escaped line breaks): identical output bytes; every line skeleton of G at <=1 non-default production (thorough <=2) x placeholder-mode flag sets; for each skeleton the explorer enumerates the re-assignments of its SECRET leaves within their class: fillers jointly re-assigned or not x each focused literal taking every alternative of its class alphabet (21 ordinary strings incl. empty, 1.3 KB, JSON metacharacters, '@' without e-mail shape, output-shaped texts, plus up to 8 texts taken from the line itself - its user field names, a dotted path of them, collection, database, namespace, an operator, the verb; 4 e-mails; 4 $date / $oid / base64 contents; 6 numbers under N; both booleans under B), up to 2 leaves deviating; oracle = byte-identical output. distinct = skeleton lines with at least one SECRET leaf" + scaleRule + streamLenRule + rootedRule,
		Assumptions: []string{"class membership follows DESIGN.md 3.0: borderline e-mail shapes are never used as members of a class", "encrypt and selective modes are outside the property"},
		Run:         c02Run,
	})
}
