//go:build verif

package main

// C11 — key-file lifecycle: create once, never overwrite, refuse unusable keys.  Explicit-state search:
// every sequence of up to 3 runs from each initial state of the key path is executed with the real CLI
// in a fresh sandbox and every transition is compared with a reference model written from the property.

import (
	"bytes"
	"encoding/base64"
	"fmt"
	"os"
	"os/exec"
	"path/filepath"
	"regexp"
	"strings"
)

type c11Init struct {
	name  string
	class string                  // absent | valid | valid-ws | unusable | parent-missing
	setup func(dir string) string // prepares the sandbox, returns the key path
}

// the states of the valid-key family: the key each holds; they are explored to depth 2
var c11FamilyKey = map[string][]byte{}

func c11Key(seed byte) []byte {
	k := make([]byte, 64)
	for i := range k {
		k[i] = byte(i)*11 + seed
	}
	return k
}

func c11Inits() []c11Init {
	b64 := func(n int) string {
		k := make([]byte, n)
		for i := range k {
			k[i] = byte(i*5 + 1)
		}
		return base64.StdEncoding.EncodeToString(k)
	}
	file := func(content string, mode os.FileMode) func(string) string {
		return func(dir string) string {
			p := filepath.Join(dir, "the.key")
			os.WriteFile(p, []byte(content), mode)
			os.Chmod(p, mode)
			return p
		}
	}
	valid := base64.StdEncoding.EncodeToString(c11Key(7))
	// the family of valid keys: the base64 text of the key starting with EVERY character of the alphabet, the all-zero
	// and all-ones keys, a key whose text is full of '+' and '/', a key that spells words - a reader that strips, trims
	// or sniffs the text must still load each of them.  Explored to depth 2.
	var family []c11Init
	const b64chars = "ABCDEFGHIJKLMNOPQRSTUVWXYZabcdefghijklmnopqrstuvwxyz0123456789+/"
	addKey := func(name string, k []byte) {
		family = append(family, c11Init{name, "valid", file(base64.StdEncoding.EncodeToString(k), 0o600)})
		c11FamilyKey[name] = k
	}
	for i := 0; i < 64; i++ {
		k := c11Key(byte(40 + i))
		k[0] = byte(i<<2) | (k[0] & 3)
		addKey("valid-text-starts-with-"+b64chars[i:i+1], k)
	}
	addKey("valid-all-zero-bytes", make([]byte, 64))
	addKey("valid-all-ones-bytes", bytes.Repeat([]byte{0xff}, 64))
	addKey("valid-text-of-plus-and-slash", bytes.Repeat([]byte{0xfb, 0xff, 0xbf}, 22)[:64])
	if w, err := base64.StdEncoding.DecodeString("base64" + strings.Repeat("keyfile0", 10) + "=="); err == nil && len(w) == 64 {
		addKey("valid-text-spells-words", w)
	}
	return append(family, []c11Init{
		{"absent", "absent", func(dir string) string { return filepath.Join(dir, "the.key") }},
		{"valid", "valid", file(valid, 0o600)},
		{"valid-mode-0644", "valid", file(valid, 0o644)},
		{"valid-trailing-newline", "valid-ws", file(valid+"\n", 0o600)},
		{"valid-trailing-crlf", "valid-ws", file(valid+"\r\n", 0o600)},
		{"empty", "unusable", file("", 0o600)},
		{"short-63-bytes", "unusable", file(b64(63), 0o600)},
		{"short-32-bytes", "unusable", file(b64(32), 0o600)},
		{"long-65-bytes", "unusable", file(b64(65), 0o600)},
		{"long-66-bytes", "unusable", file(b64(66), 0o600)},
		{"long-96-bytes", "unusable", file(b64(96), 0o600)},
		{"long-128-bytes", "unusable", file(b64(128), 0o600)},
		{"not-base64", "unusable", file("this is *not* base64 !!"+strings.Repeat("?", 65), 0o600)},
		{"base64url-alphabet", "unusable", file(strings.Repeat("-_", 44), 0o600)},
		{"raw-64-bytes", "unusable", file(string(bytes.Repeat([]byte{0xfe, 0x01}, 32)), 0o600)},
		{"directory", "unusable", func(dir string) string { p := filepath.Join(dir, "the.key"); os.Mkdir(p, 0o755); return p }},
		// the key path exists but is not a regular file of the sandbox: a symbolic link to a valid key file, the
		// null device (reads as an empty file), a symbolic link to it
		{"symlink-to-valid", "valid", func(dir string) string {
			t := filepath.Join(dir, "target.key")
			os.WriteFile(t, []byte(valid), 0o600)
			p := filepath.Join(dir, "the.key")
			os.Symlink(t, p)
			return p
		}},
		// a valid key at the DEFAULT location (./anonymongo.enc.key in the working directory): runs without --encrypt
		// have nothing to do with it
		{"valid-at-default-location", "valid", func(dir string) string {
			p := filepath.Join(dir, "anonymongo.enc.key")
			os.WriteFile(p, []byte(valid), 0o600)
			return p
		}},
		// a path spelled with a leading "~/" reaches the tool literally (no shell expanded it): "./~/the.key".  Without a
		// directory named "~" the parent is missing; with one it is an ordinary absent key path.  HOME is the sandbox.
		{"tilde-path-no-such-directory", "parent-missing", func(dir string) string { return "~/the.key" }},
		{"tilde-path-directory-exists", "absent", func(dir string) string { os.Mkdir(filepath.Join(dir, "~"), 0o755); return "~/the.key" }},
		{"null-device", "unusable", func(dir string) string { return "/dev/null" }},
		{"symlink-to-null-device", "unusable", func(dir string) string {
			p := filepath.Join(dir, "the.key")
			os.Symlink("/dev/null", p)
			return p
		}},
		{"parent-missing", "parent-missing", func(dir string) string { return filepath.Join(dir, "no", "such", "dir", "the.key") }},
		{"below-a-regular-file", "parent-missing", func(dir string) string {
			os.WriteFile(filepath.Join(dir, "plainfile"), []byte("x"), 0o644)
			return filepath.Join(dir, "plainfile", "the.key")
		}},
		// a symbolic link whose target does not exist yet (the key is to live on another volume): like an absent path,
		// the key is created - through the link - and read back by later runs
		{"symlink-dangling", "absent", func(dir string) string {
			p := filepath.Join(dir, "the.key")
			os.Symlink(filepath.Join(dir, "not-yet.key"), p)
			return p
		}},
		// non-canonical text AND loose permissions together; a link to a key file with loose permissions
		{"valid-trailing-newline-mode-0644", "valid-ws", file(valid+"\n", 0o644)},
		{"valid-trailing-crlf-mode-0640", "valid-ws", file(valid+"\r\n", 0o640)},
		{"symlink-to-valid-mode-0644", "valid", func(dir string) string {
			t := filepath.Join(dir, "target.key")
			os.WriteFile(t, []byte(valid), 0o644)
			os.Chmod(t, 0o644)
			p := filepath.Join(dir, "the.key")
			os.Symlink(t, p)
			return p
		}},
		{"directory-not-empty", "unusable", func(dir string) string {
			p := filepath.Join(dir, "the.key")
			os.Mkdir(p, 0o755)
			os.WriteFile(filepath.Join(p, "inner.key"), []byte(valid), 0o600)
			return p
		}},
	}...)
}

const c11Secret1, c11Secret2 = "alice.secret.one@example.com", "Bob's secret phrase ② \"quoted\""

func c11Inputs(dir string) (string, string) {
	mk := func(name, v string, n int) string {
		var ls []string
		for i := 0; i < n; i++ {
			ls = append(ls, LO("t", LO("$date", LS("2024-05-01T10:00:00.123+00:00")), "s", LS("I"), "c", LS("COMMAND"), "id", LN("51803"), "ctx", LS("conn1"), "msg", LS("Slow query"),
				"attr", LO("ns", LS("d.c"), "command", LO("find", LS("c"), "filter", LO("who", LS(v), "n", LN(fmt.Sprint(i))), "$db", LS("d")))).JSON())
		}
		if name == "in2.log" {
			// the second input starts with lines that hold nothing to encrypt (another component, text that is not JSON)
			ls = append([]string{`{"t":{"$date":"2024-05-01T10:00:02.000+00:00"},"s":"I","c":"NETWORK","id":22943,"ctx":"listener","msg":"Connection accepted","attr":{"remote":"192.168.1.5:51234","connectionId":12}}`, "not json at all"}, ls...)
		}
		p := filepath.Join(dir, name)
		os.WriteFile(p, []byte(strings.Join(ls, "\n")+"\n"), 0o644)
		return p
	}
	return mk("in1.log", c11Secret1, 3), mk("in2.log", c11Secret2, 2)
}

// c11BadInputs: inputs on which a run must fail — after good lines have been processed (a line longer than the
// reader's limit in second position; a gzip stream cut in its last third) or before anything is read (no such file).
func c11BadInputs(dir string) (longLine, cutGz, missing string) {
	line := func(v string, i int) string {
		return LO("t", LO("$date", LS("2024-05-01T10:00:00.123+00:00")), "s", LS("I"), "c", LS("COMMAND"), "id", LN("51803"), "ctx", LS("conn1"), "msg", LS("Slow query"),
			"attr", LO("ns", LS("d.c"), "command", LO("find", LS("c"), "filter", LO("who", LS(v), "n", LN(fmt.Sprint(i))), "$db", LS("d")))).JSON()
	}
	longLine = filepath.Join(dir, "bad-long.log")
	os.WriteFile(longLine, []byte(line(c11Secret1, 0)+"\n"+line(c11Secret1+strings.Repeat(" pad", 30000), 1)+"\n"+line(c11Secret1, 2)+"\n"), 0o644)
	var many []string
	for i := 0; i < 400; i++ {
		many = append(many, line(c11Secret1, i))
	}
	z := gz([]byte(strings.Join(many, "\n") + "\n"))
	cutGz = filepath.Join(dir, "bad-cut.log.gz")
	os.WriteFile(cutGz, z[:len(z)*2/3], 0o644)
	return longLine, cutGz, filepath.Join(dir, "no-such-input.log")
}

type c11Obs struct {
	keyType string // absent | file | dir | other
	keyData []byte
	keyMode os.FileMode
	link    string // target if the key path itself is a symbolic link
}

func c11Observe(p string) c11Obs {
	st, err := os.Lstat(p)
	if err != nil {
		return c11Obs{keyType: "absent"}
	}
	if st.IsDir() {
		return c11Obs{keyType: "dir", keyMode: st.Mode().Perm()}
	}
	b, _ := os.ReadFile(p)
	if st.Mode()&os.ModeSymlink != 0 {
		target, _ := os.Readlink(p)
		if t, err := os.Stat(p); err == nil {
			return c11Obs{"file", b, t.Mode().Perm(), target}
		}
		return c11Obs{"file", b, st.Mode().Perm(), target}
	}
	return c11Obs{"file", b, st.Mode().Perm(), ""}
}

func (o c11Obs) same(p c11Obs) bool {
	return o.keyType == p.keyType && bytes.Equal(o.keyData, p.keyData) && o.keyMode == p.keyMode && o.link == p.link
}

// the model's abstract state
type c11State struct {
	class string // absent | valid | valid-ws | unusable | parent-missing
	key   []byte // the key the file holds when valid
}

func c11Canon(s c11State, generated bool) string {
	if s.class == "valid" && generated {
		return "valid(generated)"
	}
	return s.class
}

var c11B64Re = regexp.MustCompile(`^[A-Za-z0-9+/]{86}==$`)

var c11OpNames = []string{"redact in1 --encrypt", "redact in2 --encrypt", "redact in1 (no --encrypt)", "decrypt",
	"redact --encrypt an input with an over-long second line", "redact --encrypt a cut gzip input", "redact --encrypt a missing input"}

// c11Trace executes one sequence of operations from an initial state and checks every transition.
func c11Trace(c *Ctx, init c11Init, ops []int, sandbox string) (states []string) {
	dir := freshDir(sandbox, "t")
	kp := init.setup(dir)
	kpAbs := kp // where the harness looks: relative key paths are relative to the working directory of the runs
	if !filepath.IsAbs(kp) {
		kpAbs = filepath.Join(dir, kp)
	}
	in1, in2 := c11Inputs(dir)
	badLong, badGz, badMissing := c11BadInputs(dir)
	outPath := filepath.Join(dir, "out.log")
	st := c11State{class: init.class}
	if init.class == "valid" || init.class == "valid-ws" {
		st.key = c11Key(7)
		if k := c11FamilyKey[init.name]; k != nil {
			st.key = k
		}
	}
	generated := false
	var lastCT, lastPT string // a ciphertext produced under the current key, for decrypt
	opName := c11OpNames
	hist := init.name
	states = append(states, c11Canon(st, generated))
	for _, op := range ops {
		before := c11Observe(kpAbs)
		os.Remove(outPath)
		var r CLIRes
		var err error
		secret := c11Secret1
		switch op {
		case 0, 1:
			in := in1
			if op == 1 {
				in, secret = in2, c11Secret2
			}
			r, err = runCLI(CLIRun{Bin: c.CLI, Args: []string{"redact", in, "-o", outPath, "--encrypt", "-q", kp}, Dir: dir})
		case 2:
			r, err = runCLI(CLIRun{Bin: c.CLI, Args: []string{"redact", in1, "-o", outPath}, Dir: dir})
		case 4, 5, 6:
			in := []string{badLong, badGz, badMissing}[op-4]
			r, err = runCLI(CLIRun{Bin: c.CLI, Args: []string{"redact", in, "-o", outPath, "--encrypt", "-q", kp}, Dir: dir})
		default:
			ct := lastCT
			if ct == "" {
				// a ciphertext under the model's key (or under the harness key if the state has none)
				k := st.key
				if k == nil {
					k = harnessKey
				}
				b, _ := Encrypt([]byte(c11Secret1), k)
				ct, lastPT = base64.StdEncoding.EncodeToString(b), c11Secret1
			}
			r, err = runCLI(CLIRun{Bin: c.CLI, Args: []string{"decrypt", "--decryptionKeyFile", kp, "--", ct}, Dir: dir})
		}
		if err != nil {
			c.HarnessError("C11: %v", err)
			return
		}
		c.P.Transitions++
		c.Eval(1)
		hist += " ; " + opName[op]
		after := c11Observe(kpAbs)
		outB, _ := os.ReadFile(outPath)
		viol := func(sig, what string) {
			c.Outcome("model-mismatch")
			c.Violate("keyfile:"+sig, fmt.Sprintf("history [%s] (state before the last run: %s): %s; exit %d, stderr %q", hist, c11Canon(st, generated), what, r.Exit, trunc(string(r.Stderr), 200)), int64(len(ops)),
				map[string]any{"kind": "keyfile-trace", "init": init.name, "ops": ops[:], "history": hist}, nil)
		}
		// ciphertexts of an encrypt run decrypt under `key` to the secret?
		checkCipher := func(key []byte) bool {
			lines := strings.Split(strings.TrimSuffix(string(outB), "\n"), "\n")
			n := 0
			for _, l := range lines {
				j, e := ParseJSON([]byte(l))
				if e != nil {
					return false
				}
				if cc := jget(j, "c"); cc != nil && cc.Str == "NETWORK" {
					continue
				}
				v := follow(j, []int{6, 1, 1, 0})
				if v == nil || v.Kind != JStr {
					return false
				}
				raw, e := base64.StdEncoding.DecodeString(v.Str)
				if e != nil {
					return false
				}
				pt, e := Decrypt(raw, key)
				if e != nil || string(pt) != secret {
					return false
				}
				lastCT, lastPT = v.Str, secret
				n++
			}
			return n > 0
		}
		// the lines a failing run did write: every one must be a ciphertext line under `key`
		checkPartial := func(key []byte) (ok bool, n int) {
			for _, l := range strings.Split(strings.TrimSuffix(string(outB), "\n"), "\n") {
				if strings.TrimSpace(l) == "" {
					continue
				}
				j, e := ParseJSON([]byte(l))
				if e != nil {
					return false, n
				}
				v := follow(j, []int{6, 1, 1, 0})
				if v == nil || v.Kind != JStr {
					return false, n
				}
				raw, e := base64.StdEncoding.DecodeString(v.Str)
				if e != nil || key == nil {
					return false, n + 1
				}
				if pt, e := Decrypt(raw, key); e != nil || !strings.HasPrefix(string(pt), c11Secret1) {
					return false, n + 1
				}
				n++
			}
			return true, n
		}
		switch {
		case op >= 4: // a run that must fail: bad input (after some good lines, or before anything is read)
			if r.Exit == 0 {
				viol("bad-input:run-succeeds", "the input cannot be processed completely but the run exits 0")
			}
			switch st.class {
			case "absent":
				if after.keyType == "absent" {
					if _, n := checkPartial(nil); n > 0 {
						viol("absent:ciphertext-without-stored-key", fmt.Sprintf("the failed run wrote %d ciphertext line(s) but the key it generated is not in the key file: nobody can decrypt them, and the next run will use another key", n))
					}
					break
				}
				raw, e := base64.StdEncoding.DecodeString(string(after.keyData))
				if after.keyType != "file" || e != nil || len(raw) != 64 || !c11B64Re.Match(after.keyData) {
					viol("absent:stored-key-malformed", fmt.Sprintf("the key file stored by a failing run is not the base64 text of a 64-byte key (%d bytes of text)", len(after.keyData)))
					break
				}
				if after.keyMode != 0o600 {
					viol("absent:key-file-mode", fmt.Sprintf("the key file is created with mode %o, not owner-only", after.keyMode))
				}
				if ok, _ := checkPartial(raw); !ok {
					viol("absent:ciphertexts-not-under-stored-key", "the lines written by the failing run do not decrypt under the stored key")
				}
				st = c11State{class: "valid", key: raw}
				generated = true
			case "valid", "valid-ws":
				if !after.same(before) {
					viol("valid:key-file-changed", "an existing valid key file was modified by a failing run")
				}
				if ok, _ := checkPartial(st.key); !ok {
					viol("valid:ciphertexts-not-under-key", "the lines written by the failing run do not decrypt under the key in the file")
				}
			default:
				if !after.same(before) {
					viol(st.class+":key-path-changed", fmt.Sprintf("the unusable key path was changed (%s → %s, %d → %d bytes)", before.keyType, after.keyType, len(before.keyData), len(after.keyData)))
				}
				if len(bytes.TrimSpace(outB)) != 0 {
					viol(st.class+":output-written", fmt.Sprintf("redacted output was written although the key is unusable: %s", trunc(string(outB), 200)))
				}
			}
		case op == 2: // no --encrypt: the key path is none of this run's business
			if !after.same(before) {
				viol("touched-without-encrypt", "a run without --encrypt changed the key path")
			}
			if r.Exit != 0 || !bytes.Contains(outB, []byte("redacted@redacted.com")) {
				viol("plain-run-failed", "a run without --encrypt fails or writes no placeholder output")
			}
		case op == 3: // decrypt never creates or changes the key file
			if !after.same(before) {
				viol("decrypt-changed-key-path", "decrypt changed the key path")
			}
			switch st.class {
			case "valid", "valid-ws":
				okOut := r.Exit == 0 && strings.Contains(string(r.Stdout), "Raw value: "+lastPT)
				if !okOut && st.class == "valid" {
					viol("decrypt-fails-with-valid-key", "decrypt with the valid key file does not give back the original")
				}
				if r.Exit == 0 && !okOut {
					viol("decrypt-wrong-plaintext", "decrypt exits 0 without the original plaintext")
				}
			default:
				if r.Exit == 0 {
					viol("decrypt-accepts-unusable-key", "decrypt exits 0 although the key path holds no usable key")
				}
			}
		default: // redact --encrypt
			switch st.class {
			case "absent":
				if r.Exit != 0 {
					viol("absent:run-fails", "the key file is absent but the run fails")
					break
				}
				if after.keyType != "file" {
					viol("absent:no-key-stored", "the run succeeds but no key file was stored")
					break
				}
				raw, e := base64.StdEncoding.DecodeString(string(after.keyData))
				if e != nil || len(raw) != 64 || !c11B64Re.Match(after.keyData) {
					viol("absent:stored-key-malformed", fmt.Sprintf("the stored key file is not the base64 text of a 64-byte key (%d bytes of text)", len(after.keyData)))
					break
				}
				if after.keyMode != 0o600 {
					viol("absent:key-file-mode", fmt.Sprintf("the key file is created with mode %o, not owner-only", after.keyMode))
				}
				if rk, e := ReadKeyFromFile(kpAbs); e != nil || !bytes.Equal(rk, raw) {
					viol("absent:key-does-not-read-back", "the stored key does not read back as the same key")
				}
				if !checkCipher(raw) {
					viol("absent:ciphertexts-not-under-stored-key", "the ciphertexts of the run that created the key file do not decrypt under the stored key")
				}
				if bytes.Equal(raw, make([]byte, 64)) {
					viol("absent:zero-key", "the generated key is all zero")
				}
				c.Fact("generated-key", fmt.Sprintf("%x", raw[:8]))
				st = c11State{class: "valid", key: raw}
				generated = true
			case "valid", "valid-ws":
				if !after.same(before) {
					viol("valid:key-file-changed", "an existing valid key file was modified")
				}
				if st.class == "valid" || r.Exit == 0 {
					if r.Exit != 0 {
						viol("valid:run-fails", "the key file is valid but the run fails")
					} else if !checkCipher(st.key) {
						viol("valid:ciphertexts-not-under-key", "the ciphertexts do not decrypt under the key in the file")
					}
				} else if len(bytes.TrimSpace(outB)) != 0 {
					viol("refused-but-output", "the run refuses the key file but still writes output lines")
				}
			default: // unusable, parent-missing
				if r.Exit == 0 {
					viol(st.class+":run-succeeds", "the key path holds no usable key but the run exits 0")
				}
				if !after.same(before) {
					viol(st.class+":key-path-changed", fmt.Sprintf("the unusable key path was changed (%s → %s, %d → %d bytes)", before.keyType, after.keyType, len(before.keyData), len(after.keyData)))
				}
				if len(bytes.TrimSpace(outB)) != 0 {
					viol(st.class+":output-written", fmt.Sprintf("redacted output was written although the key is unusable: %s", trunc(string(outB), 200)))
				}
				if bytes.Contains(outB, []byte(secret)) || bytes.Contains(r.Stdout, []byte(secret)) {
					viol(st.class+":plaintext-emitted", "the sensitive value appears in clear")
				}
			}
		}
		states = append(states, c11Canon(st, generated))
	}
	c.Outcome("trace-ok")
	c.P.Traces++
	return
}

func c11Run(c *Ctx) {
	inits := c11Inits()
	depth := 3
	if c.Thorough() {
		depth = 4
	}
	var no int64
	seenStates := map[string]bool{}
	var ops []int
	var rec func(ii int, d int)
	rec = func(ii int, d int) {
		if len(ops) > 0 {
			no++
			if c.Mine(no) {
				for _, s := range c11Trace(c, inits[ii], ops, c.Scratch) {
					seenStates[inits[ii].name+"/"+s] = true
				}
				c.Distinct(fmt.Sprintf("%s %v", inits[ii].name, ops))
				if c.Shard == 0 && len(ops) == depth && ii%7 == 0 {
					c.Sample(map[string]any{"initial_state": inits[ii].name, "operations": fmt.Sprint(ops)})
				}
			}
		}
		if d == depth || (c11FamilyKey[inits[ii].name] != nil && d == 2) {
			return
		}
		for op := 0; op < len(c11OpNames); op++ {
			ops = append(ops, op)
			rec(ii, d+1)
			ops = ops[:len(ops)-1]
		}
	}
	for ii := range inits {
		rec(ii, 0)
	}
	for s := range seenStates {
		c.Fact("state", s)
	}
	if c.Shard != 0 {
		return
	}
	// fresh generations are pairwise distinct 64-byte keys (an observation over 60 CLI runs + 2000 API calls)
	gen := map[string]bool{}
	dir := freshDir(c.Scratch, "gen")
	in1, _ := c11Inputs(dir)
	for i := 0; i < 60; i++ {
		kp := filepath.Join(dir, fmt.Sprintf("k%d.key", i))
		r, err := runCLI(CLIRun{Bin: c.CLI, Args: []string{"redact", in1, "-o", filepath.Join(dir, "o.log"), "--encrypt", "-q", kp}, Dir: dir})
		if err != nil || r.Exit != 0 {
			continue
		}
		b, _ := os.ReadFile(kp)
		if gen[string(b)] {
			c.Violate("keyfile:generated-key-repeats", "two runs generated the same key", 0, map[string]any{"kind": "generation"}, nil)
		}
		gen[string(b)] = true
	}
	for i := 0; i < 2000; i++ {
		k, err := GenerateKey()
		if err != nil || len(k) != 64 {
			c.Violate("keyfile:generate-key", "GenerateKey does not return 64 bytes", 0, map[string]any{"kind": "generation"}, nil)
			break
		}
		if gen[string(k)] {
			c.Violate("keyfile:generated-key-repeats", "GenerateKey returned the same key twice", 0, map[string]any{"kind": "generation"}, nil)
			break
		}
		gen[string(k)] = true
	}
	c.Count("generated_keys_compared", int64(len(gen)))
	// ordering: the key file is written before the first byte of output (strace on one run)
	if _, err := exec.LookPath("strace"); err == nil {
		d2 := freshDir(c.Scratch, "order")
		in, _ := c11Inputs(d2)
		kp, op, tr := filepath.Join(d2, "ord.key"), filepath.Join(d2, "ord.out"), filepath.Join(d2, "trace.txt")
		cmd := exec.Command("strace", "-f", "-e", "trace=openat,write", "-o", tr, c.CLI, "redact", in, "-o", op, "--encrypt", "-q", kp)
		cmd.Dir = d2
		cmd.Env = []string{"PATH=/usr/bin:/bin", "HOME=" + d2, "TMPDIR=" + d2}
		if err := cmd.Run(); err == nil {
			tb, _ := os.ReadFile(tr)
			keyW, outW := c11FirstWrite(string(tb), kp), c11FirstWrite(string(tb), op)
			c.Count("strace_order_checked", 1)
			if keyW < 0 || outW < 0 {
				c.Note("strace ordering check: could not locate the writes (key %d, output %d)", keyW, outW)
			} else if keyW > outW {
				c.Violate("keyfile:ciphertext-before-key-stored", "the first write to the output file precedes the write of the key file (a crash in between leaves ciphertext nobody can decrypt)", 0, map[string]any{"kind": "strace-order"}, nil)
			}
		} else {
			c.Note("strace ordering check skipped: %v", err)
		}
	} else {
		c.Note("strace not available: ordering of key-file write and first output write not observed")
	}
}

// c11FirstWrite: line number of the first write() to the file opened under path, -1 if none.
func c11FirstWrite(trace, path string) int {
	fds := map[string]bool{}
	openRe := regexp.MustCompile(`^(\d+)\s+openat\(AT_FDCWD, "([^"]+)".*\) = (\d+)`)
	writeRe := regexp.MustCompile(`^(\d+)\s+write\((\d+),`)
	for i, l := range strings.Split(trace, "\n") {
		if m := openRe.FindStringSubmatch(l); m != nil {
			if m[2] == path {
				fds[m[3]] = true
			} else {
				delete(fds, m[3])
			}
			continue
		}
		if m := writeRe.FindStringSubmatch(l); m != nil && fds[m[2]] {
			return i
		}
	}
	return -1
}

func c11Post(c *Ctx, m *Part) {
	m.States = int64(len(m.Facts["state"]))
	if len(m.Facts["generated-key"]) > 0 {
		c.Count("distinct_generated_keys_in_traces", int64(len(m.Facts["generated-key"])))
	}
}

func init() {
	register(&PropDef{
		ID: "C11", Level: "model_checking",
		Rule:        "explicit-state search with the real CLI: 26 initial states of the key path explored to depth 3 (thorough 4) and 68 more to depth 2 - the family of valid keys: the base64 text starting with each of the 64 characters of the alphabet, the all-zero and all-ones keys, a text of '+' and '/', a text that spells words - (absent; valid with mode 0600 / 0644; valid + LF / CRLF; a symbolic link to a valid key, to one with mode 0644, to nothing yet; valid + LF / CRLF with modes 0644 / 0640; empty; 32-, 63-, 65-, 66-, 96-, 128-byte keys; not base64; base64url alphabet; 64 raw bytes; directory, empty and not; the null device; a symbolic link to the null device; parent missing; below a regular file) x EVERY sequence of 1..3 (thorough 1..4) operations over {redact in1 --encrypt, redact in2 --encrypt, redact without --encrypt, decrypt, redact --encrypt of an input with an over-long second line (fails after one good line), of a cut gzip input (fails mid-stream), of a missing input (fails before reading)} = 21 x 399 traces, each replayed from a fresh sandbox; after every transition the observed key path (type, bytes, mode), exit status and output file are compared with the reference model (absent -> valid(K'), 64 bytes, base64, 0600, reads back, ciphertexts under the stored key; a FAILING run from absent either leaves no key and no ciphertext line, or a well-formed key under which every line it wrote decrypts, and that key is what later runs use; valid -> untouched, ciphertexts under K; valid with trailing white space: accepted or refused, untouched either way; unusable / parent missing -> non-zero exit, untouched, no output line, no plaintext; no --encrypt and decrypt never touch the key path; decrypt succeeds exactly with a valid key). states = distinct (initial state, abstract state) pairs reached; plus 60 CLI generations + 2000 GenerateKey calls pairwise distinct (observation) and one strace run for write ordering",
		Assumptions: []string{"'unreadable' key files cannot be produced when running as root", "distinctness of generated keys is an observation, not a decision", "a valid key followed by a newline may be accepted or refused; both outcomes must leave it untouched"},
		Run:         c11Run, Post: c11Post,
	})
}
