//go:build verif

package main

// C10 — encryption is deterministic, injective, placeholder-equivalent and fail-closed.

import (
	"crypto/sha256"
	"encoding/base64"
	"fmt"
	"os"
	"path/filepath"
	"sort"
	"strings"
	"time"
)

type c10Diff struct {
	node   *LNode
	path   string
	detail string
}

// c10Walk compares input, placeholder-mode output and encrypt-mode output position by position.
func c10Walk(in *LNode, pl, en *JNode, key []byte, path []string, dict map[string]string, diffs *[]c10Diff) {
	if pl.Kind != en.Kind || len(pl.Kids) != len(en.Kids) {
		*diffs = append(*diffs, c10Diff{in, strings.Join(path, "."), "shape-differs-between-modes"})
		return
	}
	switch pl.Kind {
	case JObj, JArr:
		if in.Kind != pl.Kind || len(in.Kids) != len(pl.Kids) {
			return // the shape changed w.r.t. the input: C03's concern
		}
		for i := range pl.Kids {
			seg := "[]"
			if pl.Kind == JObj {
				seg = sigSeg(in, i)
				if pl.Keys[i] != en.Keys[i] {
					*diffs = append(*diffs, c10Diff{in, strings.Join(append(path, seg), "."), "key-differs-between-modes"})
					continue
				}
			}
			c10Walk(in.Kids[i], pl.Kids[i], en.Kids[i], key, append(path, seg), dict, diffs)
		}
		return
	case JStr:
		if in.Kind != JStr {
			if pl.Str != en.Str {
				*diffs = append(*diffs, c10Diff{in, strings.Join(path, "."), "non-string-leaf-differs-between-modes"})
			}
			return
		}
		replaced := pl.Str != in.Str
		isSecret := in.Lab.K == LabSecret
		if en.Str == pl.Str {
			if replaced && isSecret {
				*diffs = append(*diffs, c10Diff{in, strings.Join(path, "."), "placeholder-instead-of-ciphertext"})
			}
			return
		}
		// the modes differ here: the encrypt-mode value must be the ciphertext of the input value, at a
		// leaf that placeholder mode replaces
		if en.Str == in.Str && in.Str != "" {
			*diffs = append(*diffs, c10Diff{in, strings.Join(path, "."), "plaintext-in-encrypt-mode"})
			return
		}
		raw, err := base64.StdEncoding.Strict().DecodeString(en.Str)
		var pt []byte
		if err == nil {
			pt, err = Decrypt(raw, key)
		}
		if err != nil || string(pt) != in.Str {
			*diffs = append(*diffs, c10Diff{in, strings.Join(path, "."), "not-the-ciphertext-of-the-input"})
			return
		}
		if !replaced {
			*diffs = append(*diffs, c10Diff{in, strings.Join(path, "."), "encrypted-where-placeholder-mode-keeps"})
			return
		}
		if dict != nil {
			if prev, ok := dict[in.Str]; ok && prev != en.Str {
				*diffs = append(*diffs, c10Diff{in, strings.Join(path, "."), "nondeterministic"})
			}
			dict[in.Str] = en.Str
		}
	default:
		same := pl.Kind == en.Kind && pl.Num == en.Num && pl.Bool == en.Bool
		if !same {
			*diffs = append(*diffs, c10Diff{in, strings.Join(path, "."), "non-string-leaf-differs-between-modes"})
		}
	}
}

var c10Dictionary = []string{"x", "x ", " x", "X", "xx", "x\u0000", "", " ", "é", "é", "abc", "abcd", "bcd", "ab", "a@b.co", "A@b.co", "a@b.co ", "000000000000000000000001", "000000000000000000000002",
	"2024-01-01T00:00:00Z", "2024-01-01T00:00:00.000Z", "lorem ipsum dolor sit amet", "lorem ipsum dolor sit amet.", "日本", "日本語", "\"", "\\\"", "null", "true", "0", "00",
	"Zo\u00eb", "Zoe\u0308", "\u212b", "\u00c5", "A\u030a", "\u2126", "\u03a9", "bob@example.com", "Bob <bob@example.com>", "<bob@example.com>", "mailto:bob@example.com", " bob@example.com", "bob@example.com\n", "bob@example.com ",
	"10.1.2.3:27017", "10.1.2.3", "255.255.255.255:65535", "jo\u212ae@example.com", "joke@example.com", "joKe@example.com"}

func c10DictLines() ([]string, [][]string) {
	var lines []string
	var vals [][]string
	d := c10Dictionary
	for i := 0; i < len(d); i++ {
		a, b, e := d[i], d[(i*7+3)%len(d)], d[(i+1)%len(d)]
		root := LO("t", LO("$date", LS("2024-05-01T10:00:00.123+00:00")), "s", LS("I"), "c", LS("COMMAND"), "id", LN("1"), "ctx", LS("c"), "msg", LS("Slow query"),
			"attr", LO("ns", LS("d.c"), "command", LO("find", LS("c"), "filter", LO("p", LS(a), "q", LO("$in", LA(LS(b), LS(a), LS(e)))), "$db", LS("d"))))
		lines = append(lines, root.JSON())
		vals = append(vals, []string{a, b, a, e})
	}
	return lines, vals
}

var c10DictPaths = [][]int{{6, 1, 1, 0}, {6, 1, 1, 1, 0, 0}, {6, 1, 1, 1, 0, 1}, {6, 1, 1, 1, 0, 2}}

func c10Run(c *Ctx) {
	var fsets []Flags
	for m := 0; m < 32; m++ {
		f := Flags{N: m&1 != 0, B: m&2 != 0, I: m&4 != 0, W: m&8 != 0}
		if m&16 != 0 {
			f.R = customReplacement
		}
		fsets = append(fsets, f)
	}
	// field-name and selective modes next to encryption: the same relation between the two outputs
	fsets = append(fsets, Flags{F: []string{"dbZq1.coQx7"}}, Flags{Z: "^(fld|status|owner)$"}, Flags{F: []string{"dbZq1"}, N: true, W: true}, Flags{Z: "^(fld|status|owner)$", B: true, I: true, R: customReplacement})
	keys := c09Keys()
	layers := []sweepLayer{
		{"L0", GenOpts{LeafSet: 0}, 0, nil},
		{"L1", GenOpts{OneGate: true, LeafSet: 1}, 1, nil},
	}
	if c.Thorough() {
		layers = append(layers, sweepLayer{"L2", GenOpts{OneGate: true, LeafSet: 2}, 2, nil})
	}
	layers = append(layers, sweepLayer{"scale", GenOpts{Scale: true, ScaleThorough: c.Thorough()}, 0, nil})
	dict := map[string]string{} // plaintext -> ciphertext text under harnessKey, over everything this worker sees
	badKeys := [][]byte{{}, {1}, make([]byte, 16), make([]byte, 32), make([]byte, 63), make([]byte, 65), make([]byte, 128)}
	sweep(c, layers, func(sc *sweepCase) bool {
		if !sc.C.InClaim || len(sc.C.Secrets) == 0 {
			return false
		}
		c.Distinct(sc.Line)
		fs := fsets
		if sc.Layer != "L0" {
			fs = []Flags{fsets[0], fsets[3], fsets[28], fsets[31]}
		}
		if sc.Layer == "L2" {
			fs = fs[:2]
		}
		for fi, fl := range fs {
			fl.Apply()
			plain, ok1, pv1 := redactLine(sc.Line)
			fe := fl
			fe.Y = true
			ki := 0
			if fi%4 == 3 {
				ki = 1 + (fi/4)%(len(keys)-1)
				fe.Key = keys[ki]
			}
			fe.Apply()
			enc, ok2, pv2 := redactLine(sc.Line)
			c.Eval(2)
			if pv1 != nil || pv2 != nil {
				c.Count("skipped_panics", 1)
				continue
			}
			if ok1 != ok2 {
				c.Violate("modes:accept-differs", fmt.Sprintf("placeholder mode and encrypt mode disagree on whether the line yields output; flags [%s]; input %s", fl, trunc(sc.Line, 400)), int64(len(sc.Line)), replayOf(sc, fe, nil), nil)
				continue
			}
			if !ok1 {
				continue
			}
			pj, e1 := ParseJSON([]byte(plain))
			ej, e2 := ParseJSON([]byte(enc))
			if e1 != nil || e2 != nil {
				c.Count("skipped_unparsable", 1)
				continue
			}
			var diffs []c10Diff
			var d map[string]string
			if ki == 0 {
				d = dict
			}
			c10Walk(sc.C.Root, pj, ej, keys[ki], nil, d, &diffs)
			if len(diffs) == 0 {
				c.Outcome("equivalent")
				continue
			}
			c.Outcome("differs")
			for _, df := range diffs {
				p := strings.ReplaceAll(df.path, ".[]", "[]")
				line, root, detail, path, fl, fe, key := sc.Line, sc.C.Root, df.detail, df.path, fl, fe, keys[ki]
				c.Violate("modes:"+df.detail+":"+coarseLoc(p), fmt.Sprintf("%s at %s; flags [%s] vs [%s]; placeholder mode: %s | encrypt mode: %s", df.detail, p, fl, fe, trunc(plain, 300), trunc(enc, 300)), int64(len(line)),
					replayOf(sc, fe, map[string]any{"plain": plain, "enc": enc}),
					func() bool {
						if detail == "nondeterministic" {
							return true // depends on the dictionary built so far; re-checked through the CLI pass
						}
						fl.Apply()
						a, _, _ := redactLine(line)
						fe.Apply()
						b, _, _ := redactLine(line)
						aj, e1 := ParseJSON([]byte(a))
						bj, e2 := ParseJSON([]byte(b))
						if e1 != nil || e2 != nil {
							return false
						}
						var ds []c10Diff
						c10Walk(root, aj, bj, key, nil, nil, &ds)
						for _, x := range ds {
							if x.path == path && x.detail == detail {
								return true
							}
						}
						return false
					})
			}
		}
		// fail-closed: unusable key material injected at the API level, encryption requested
		if sc.Layer == "L0" && sc.C.Gate == 0 {
			for bi, bk := range badKeys {
				fl := Flags{Y: true, Key: bk, N: bi%2 == 1}
				fl.Apply()
				out, ok, pv := redactLine(sc.Line)
				c.Eval(1)
				if pv != nil || !ok {
					continue // refusing the line is fail-closed too
				}
				for _, lk := range c01Leaks(sc, fl, out, nil) {
					if lk.kind != "leak" {
						continue
					}
					line, node := sc.Line, lk.node
					c.Outcome("fail-open")
					c.Violate(fmt.Sprintf("fail-open:key-len-%d", len(bk)), fmt.Sprintf("with --encrypt requested and an unusable %d-byte key the literal %s is emitted in clear: %s", len(bk), trunc(node.JSON(), 60), trunc(out, 300)), int64(len(line)),
						replayOf(sc, fl, map[string]any{"key_len": len(bk), "output": out}),
						func() bool { fl.Apply(); o, _, _ := redactLine(line); return strings.Contains(o, node.Lab.Canary) })
					break
				}
			}
		}
		if c.P.Evaluations < 300 {
			c.Sample(map[string]any{"slot": sc.C.SlotName, "line": trunc(sc.Line, 600)})
		}
		return false
	}, nil)
	// dictionary of near-duplicates, in-process: same plaintext -> same ciphertext, different -> different
	dl, dv := c10DictLines()
	Flags{Y: true}.Apply()
	for i, l := range dl {
		out, ok, _ := redactLine(l)
		if !ok {
			continue
		}
		j, err := ParseJSON([]byte(out))
		if err != nil {
			continue
		}
		for k, p := range c10DictPaths {
			if n := follow(j, p); n != nil && n.Kind == JStr {
				pt := dv[i][k]
				if prev, ok := dict[pt]; ok && prev != n.Str {
					c.Violate("determinism:in-process", fmt.Sprintf("the plaintext %q is encrypted to %q and to %q in one run", pt, prev, n.Str), 0, map[string]any{"kind": "dict"}, nil)
				}
				dict[pt] = n.Str
			}
		}
	}
	Flags{}.Apply()
	rev := map[string]string{}
	var pts []string
	for pt, ct := range dict {
		if o, ok := rev[ct]; ok && o != pt {
			c.Violate("injectivity", fmt.Sprintf("the plaintexts %q and %q have the same ciphertext %q", trunc(o, 60), trunc(pt, 60), trunc(ct, 60)), 0, map[string]any{"kind": "dict", "a": o, "b": pt}, nil)
		}
		rev[ct] = pt
		pts = append(pts, pt)
	}
	c.Count("max:dictionary_size", int64(len(dict)))
	// cross-process determinism: every worker reports the ciphertexts of the shared dictionary
	sort.Strings(pts)
	h := sha256.New()
	for _, pt := range c10Dictionary {
		fmt.Fprintf(h, "%q=%q;", pt, dict[pt])
	}
	c.Fact("dictionary-digest", fmt.Sprintf("%x", h.Sum(nil)[:12]))
	if c.Shard == 0 {
		c10CLI(c)
	}
	if c.Shard == 1 {
		c10Volume(c, freshDir(c.Scratch, "c10vol"), 6000)
	}
	if c.Shard == 2 && c.Thorough() {
		c10Volume(c, freshDir(c.Scratch, "c10vol"), 70000)
	}
	if c.Shard == 3%c.NShards {
		c10NearDuplicates(c)
	}
}

// c10NearDuplicates: literals that differ in ONE position, for every position.  For each length of a set spanning
// short to multi-kilobyte values, the base text and its L variants (character p replaced, for every p) plus the
// texts with one character more / less at either end go through the redaction path of ONE process in encrypt mode:
// L+5 pairwise different plaintexts must give L+5 pairwise different ciphertexts, each decrypting to its own
// plaintext.  A ciphertext table keyed by a digest of part of the value (its head, its tail, its length, a sample
// of positions) confuses two of them wherever the positions it ignores lie.
func c10NearDuplicates(c *Ctx) {
	lengths := []int{1, 2, 16, 17, 64, 100, 255, 256, 257, 300, 520, 1300}
	if c.Thorough() {
		lengths = append(lengths, 2049, 4100, 9000)
	}
	Flags{Y: true}.Apply()
	defer Flags{}.Apply()
	enc := func(pt string) (string, string) {
		in := LO("t", LO("$date", LS("2024-05-01T10:00:00.123+00:00")), "s", LS("I"), "c", LS("COMMAND"), "id", LN("1"), "ctx", LS("c"), "msg", LS("Slow query"),
			"attr", LO("ns", LS("d.c"), "command", LO("find", LS("c"), "filter", LO("fld", LS(pt)), "$db", LS("d"))))
		out, ok, pv := redactLine(in.JSON())
		c.Eval(1)
		if pv != nil || !ok {
			return "", "the line is rejected"
		}
		j, err := ParseJSON([]byte(out))
		if err != nil {
			return "", "unparsable output"
		}
		o := follow(j, []int{6, 1, 1, 0})
		if o == nil || o.Kind != JStr {
			return "", "the leaf is not a string"
		}
		raw, err := base64.StdEncoding.DecodeString(o.Str)
		if err != nil {
			return o.Str, "the emitted text is not base64"
		}
		if b, err := Decrypt(raw, harnessKey); err != nil || string(b) != pt {
			return o.Str, fmt.Sprintf("the emitted text does not decrypt to the literal (err %v, got %q…)", err, trunc(string(b), 40))
		}
		return o.Str, ""
	}
	for _, L := range lengths {
		base := []byte(strings.Repeat("The quick brown fox jumps over the lazy dog 0123456789. ", L/56+1)[:L])
		variants := []string{string(base), "x" + string(base), string(base) + "x", string(base[1:]), string(base[:L-1])}
		for p := 0; p < L; p++ {
			v := append([]byte(nil), base...)
			if v[p] == '#' {
				v[p] = '%'
			} else {
				v[p] = '#'
			}
			variants = append(variants, string(v))
		}
		seen := map[string]int{}
		for vi, pt := range variants {
			if vi > 0 && pt == variants[0] {
				continue
			}
			ct, bad := enc(pt)
			c.Distinct(fmt.Sprintf("neardup|%d|%d", L, vi))
			if bad != "" {
				c.Violate("near-duplicates:wrong-ciphertext", fmt.Sprintf("length %d, variant %d (one position differs from the base text): %s", L, vi, bad), int64(L), map[string]any{"kind": "near-duplicates", "length": L, "variant": vi}, nil)
				continue
			}
			if o, ok := seen[ct]; ok && variants[o] != pt {
				c.Violate("near-duplicates:collision", fmt.Sprintf("two different literals of length ~%d (variants %d and %d: they differ in one position) get the same ciphertext in one run", L, o, vi), int64(L), map[string]any{"kind": "near-duplicates", "length": L, "a": o, "b": vi}, nil)
			}
			seen[ct] = vi
		}
	}
	c.Count("near_duplicate_lengths", int64(len(lengths)))
}

// c10CLI: separate processes, two line orders, the run that creates the key file vs later runs,
// placeholder vs encrypt mode, a second input file.
func c10CLI(c *Ctx) {
	dir := freshDir(c.Scratch, "c10cli")
	dl, dv := c10DictLines()
	var g []string
	Explore(func(x *X) {
		cs := genCase(x, GenOpts{OneGate: true, LeafSet: 1})
		if !x.skip {
			g = append(g, cs.Root.JSON())
		}
	}, ExploreOpts{Bound: 0}, func(x *X) {})
	fwd := append(append([]string{}, dl...), g...)
	bwd := make([]string, len(fwd))
	for i, l := range fwd {
		bwd[len(fwd)-1-i] = l
	}
	write := func(name string, ls []string) string {
		p := filepath.Join(dir, name)
		os.WriteFile(p, []byte(strings.Join(ls, "\n")+"\n"), 0o644)
		return p
	}
	inF, inB, inD := write("fwd.log", fwd), write("bwd.log", bwd), write("dict.log", dl)
	keyPath := filepath.Join(dir, "fresh.key")
	run := func(in, out string, extra ...string) ([]string, bool) {
		o := filepath.Join(dir, out)
		args := append([]string{"redact", in, "--outputFile", o}, extra...)
		r, err := runCLI(CLIRun{Bin: c.CLI, Args: args, Dir: dir})
		c.Count("cli_runs", 1)
		if err != nil || r.Exit != 0 {
			c.Violate("cli:exit", fmt.Sprintf("redact %v exits %d: %s", extra, r.Exit, trunc(string(r.Stderr), 300)), 0, map[string]any{"kind": "cli", "args": args}, nil)
			return nil, false
		}
		b, _ := os.ReadFile(o)
		return strings.Split(strings.TrimSuffix(string(b), "\n"), "\n"), true
	}
	for _, extra := range [][]string{nil, {"--redactNumbers", "--redactBooleans", "--redactNamespaces", "--replacement", customReplacement}} {
		os.Remove(keyPath)
		enc := append([]string{"--encrypt", "--encryptionKeyFile", keyPath}, extra...)
		first, ok1 := run(inF, "enc1.log", enc...)  // creates the key file
		second, ok2 := run(inF, "enc2.log", enc...) // uses it
		back, ok3 := run(inB, "enc3.log", enc...)   // other line order, separate process
		dict2, ok4 := run(inD, "enc4.log", enc...)  // another file
		plain, ok5 := run(inF, "plain.log", extra...)
		if !(ok1 && ok2 && ok3 && ok4 && ok5) {
			return
		}
		kb, _ := os.ReadFile(keyPath)
		key, err := base64.StdEncoding.DecodeString(strings.TrimSpace(string(kb)))
		if err != nil || len(key) != 64 {
			c.Violate("cli:key-file", "the key file written by the first run does not hold a 64-byte base64 key", 0, map[string]any{"kind": "cli"}, nil)
			return
		}
		if len(first) != len(fwd) || len(second) != len(fwd) || len(back) != len(fwd) || len(plain) != len(fwd) || len(dict2) != len(dl) {
			c.Violate("cli:line-count", fmt.Sprintf("line counts differ: %d input lines, outputs %d/%d/%d/%d", len(fwd), len(first), len(second), len(back), len(plain)), 0, map[string]any{"kind": "cli"}, nil)
			return
		}
		c.Eval(int64(5 * len(fwd)))
		for i := range fwd {
			if first[i] != second[i] {
				c.Violate("cli:determinism:key-creating-run", fmt.Sprintf("the run that created the key file and the next run over the same input differ at line %d: %s | %s", i+1, trunc(first[i], 250), trunc(second[i], 250)), 0, map[string]any{"kind": "cli", "args": enc}, nil)
				break
			}
		}
		for i := range fwd {
			if second[i] != back[len(fwd)-1-i] {
				c.Violate("cli:determinism:line-order", fmt.Sprintf("a line is encrypted differently when the file is processed in reverse order: %s | %s", trunc(second[i], 250), trunc(back[len(fwd)-1-i], 250)), 0, map[string]any{"kind": "cli", "args": enc}, nil)
				break
			}
		}
		for i := range dl {
			if dict2[i] != first[i] {
				c.Violate("cli:determinism:across-files", fmt.Sprintf("the same line is encrypted differently in another file: %s | %s", trunc(first[i], 250), trunc(dict2[i], 250)), 0, map[string]any{"kind": "cli", "args": enc}, nil)
				break
			}
		}
		// leaf-wise relation between the plain and the encrypted run, under the key the CLI stored
		seen := map[string]string{}
		for i, l := range fwd {
			ij, e0 := ParseJSON([]byte(l))
			pj, e1 := ParseJSON([]byte(plain[i]))
			ej, e2 := ParseJSON([]byte(first[i]))
			if e0 != nil || e1 != nil || e2 != nil {
				continue
			}
			in := FromJ(ij)
			var diffs []c10Diff
			c10Walk(in, pj, ej, key, nil, seen, &diffs)
			for _, df := range diffs {
				if df.detail == "placeholder-instead-of-ciphertext" || df.detail == "encrypted-where-placeholder-mode-keeps" {
					continue // needs labels; decided in-process
				}
				c.Violate("cli:modes:"+df.detail, fmt.Sprintf("CLI, key file created by the run: %s at %s; placeholder mode %s | encrypt mode %s", df.detail, df.path, trunc(plain[i], 250), trunc(first[i], 250)), 0, map[string]any{"kind": "cli", "args": enc, "line": l}, nil)
				break
			}
		}
		// dictionary through the CLI: equal plaintexts -> equal texts, different -> different
		rev := map[string]string{}
		for i := range dl {
			j, err := ParseJSON([]byte(first[i]))
			if err != nil {
				continue
			}
			for k, p := range c10DictPaths {
				n := follow(j, p)
				if n == nil || n.Kind != JStr {
					continue
				}
				pt := dv[i][k]
				if prev, ok := seen[pt]; ok && prev != n.Str {
					c.Violate("cli:determinism:within-run", fmt.Sprintf("the plaintext %q has two ciphertexts in one run: %q and %q", pt, prev, n.Str), 0, map[string]any{"kind": "cli"}, nil)
				}
				seen[pt] = n.Str
				if o, ok := rev[n.Str]; ok && o != pt {
					c.Violate("cli:injectivity", fmt.Sprintf("the plaintexts %q and %q have the same ciphertext", o, pt), 0, map[string]any{"kind": "cli"}, nil)
				}
				rev[n.Str] = pt
			}
		}
		c.Outcome("cli-pass-done")
	}
}

// c10Volume: one long run.  n lines with pairwise different literals, then the first lines again: every literal
// must decrypt to itself and equal plaintexts must have equal ciphertexts however many other values were
// encrypted in between (state that builds up during a run - caches, tables - only shows in long runs).
func c10Volume(c *Ctx, dir string, n int) {
	var sb strings.Builder
	var pts []string
	line := func(i int) {
		pt := fmt.Sprintf("tenant-%d-%x", i, i*2654435761)
		pts = append(pts, pt)
		fmt.Fprintf(&sb, `{"t":{"$date":"2024-05-01T10:00:00.000+00:00"},"s":"I","c":"COMMAND","id":51803,"ctx":"conn1","msg":"Slow query","attr":{"ns":"d.c","command":{"find":"c","filter":{"tenant":%q},"$db":"d"}}}`+"\n", pt)
	}
	for i := 0; i < n; i++ {
		line(i)
	}
	for i := 0; i < 400; i++ {
		line(i * 7 % n)
	}
	in, out, keyPath := filepath.Join(dir, "volume.log"), filepath.Join(dir, "volume.out"), filepath.Join(dir, "volume.key")
	os.WriteFile(in, []byte(sb.String()), 0o644)
	os.Remove(keyPath)
	r, err := runCLI(CLIRun{Bin: c.CLI, Args: []string{"redact", in, "--outputFile", out, "--encrypt", "--encryptionKeyFile", keyPath}, Dir: dir, Timeout: 300 * time.Second})
	c.Count("cli_runs", 1)
	if err != nil || r.Exit != 0 {
		c.Violate("cli:volume:exit", fmt.Sprintf("redact --encrypt over %d lines exits %d: %s", len(pts), r.Exit, trunc(string(r.Stderr), 200)), 0, map[string]any{"kind": "cli-volume", "lines": len(pts)}, nil)
		return
	}
	kb, _ := os.ReadFile(keyPath)
	key, err := base64.StdEncoding.DecodeString(strings.TrimSpace(string(kb)))
	ob, _ := os.ReadFile(out)
	outs := strings.Split(strings.TrimSuffix(string(ob), "\n"), "\n")
	if err != nil || len(key) != 64 || len(outs) != len(pts) {
		c.Violate("cli:volume:output", fmt.Sprintf("%d input lines, %d output lines, key file usable: %v", len(pts), len(outs), err == nil && len(key) == 64), 0, map[string]any{"kind": "cli-volume"}, nil)
		return
	}
	seen := map[string]string{}
	rev := map[string]string{}
	c.Eval(int64(len(outs)))
	for i, o := range outs {
		j, err := ParseJSON([]byte(o))
		if err != nil {
			continue
		}
		v := follow(j, []int{6, 1, 1, 0})
		if v == nil || v.Kind != JStr {
			continue
		}
		raw, err := base64.StdEncoding.DecodeString(v.Str)
		var pt []byte
		if err == nil {
			pt, err = Decrypt(raw, key)
		}
		switch {
		case err != nil || string(pt) != pts[i]:
			c.Violate("cli:volume:wrong-ciphertext", fmt.Sprintf("line %d of a %d-line run: the emitted text does not decrypt to the literal %q (decrypts to %q, err %v)", i+1, len(pts), pts[i], trunc(string(pt), 40), err), int64(i), map[string]any{"kind": "cli-volume", "lines": n, "line": i + 1}, nil)
		case seen[pts[i]] != "" && seen[pts[i]] != v.Str:
			c.Violate("cli:volume:nondeterministic", fmt.Sprintf("the literal %q has two ciphertexts within one run of %d lines (lines apart: first seen earlier, again at line %d)", pts[i], len(pts), i+1), int64(i), map[string]any{"kind": "cli-volume", "lines": n, "line": i + 1}, nil)
		case rev[v.Str] != "" && rev[v.Str] != pts[i]:
			c.Violate("cli:volume:collision", fmt.Sprintf("the literals %q and %q share a ciphertext within one run", rev[v.Str], pts[i]), int64(i), map[string]any{"kind": "cli-volume", "lines": n, "line": i + 1}, nil)
		}
		seen[pts[i]], rev[v.Str] = v.Str, pts[i]
	}
	c.Outcome("volume-run-checked")
	c.Count("max:volume_lines", int64(len(pts)))
}

func c10Post(c *Ctx, m *Part) {
	if vs := m.Facts["dictionary-digest"]; len(vs) > 1 {
		c.Violate("determinism:across-processes", fmt.Sprintf("worker processes computed different ciphertexts for the shared dictionary under the same key: %v", vs), 0, map[string]any{"kind": "facts", "values": vs}, nil)
	}
}

func init() {
	register(&PropDef{
		ID: "C10", Level: "exploration",
		Rule:        "G inside the claim at 0 deviations (all gates x containers x 23 leaf kinds) under all 32 sets over N,B,I,W,R, <=1 non-default production under 4 sets (thorough: <=2 under 2), 5 keys: each line redacted in placeholder mode and in encrypt mode, outputs parsed and walked with the labelled input: every leaf either equal in both modes or (placeholder mode replaced a string) the encrypt-mode value is strict base64 that decrypts under the key to the input value; SECRET strings that placeholder mode replaces must be ciphertext; nothing is encrypted that placeholder mode keeps; same keys and shape; one ciphertext per plaintext over the whole dictionary seen by a worker, no two plaintexts share one (injective), a 31-word near-duplicate dictionary (trailing space, case, NFC/NFD, prefixes, empty) digested per worker process and compared across the 16 processes; fail-closed: every 0-deviation line with encryption requested and unusable key material set through the API (0,1,16,32,63,65,128 bytes): no SECRET canary in the output; CLI: the run that creates the key file vs the next run vs reversed line order vs another file vs placeholder mode, leaf-wise relation under the key the CLI stored. distinct = distinct input lines with a SECRET leaf" + scaleRule + "; near-duplicates: for lengths {1,2,16,17,64,100,255,256,257,300,520,1300} (thorough + 2049, 4100, 9000) the base text, the L texts differing from it in exactly one position and 4 texts one character longer / shorter, in one process",
		Assumptions: []string{"5 keys out of 2^512", "inputs never hold a placeholder text as a literal", "the label table of G is the trusted base for 'must be ciphertext'"},
		Run:         c10Run, Post: c10Post,
	})
}
