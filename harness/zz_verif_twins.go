//go:build verif

package main

// Twin lines: log lines that agree on everything a tool could take for the IDENTITY of an operation (namespace,
// cursor id, connection, session, operation id) or that use the same WORDS in different roles (an operator's
// argument names as user field names), and differ elsewhere.  Any state carried from one line to a later one -
// a cache keyed by cursor, a memo of table look-ups, a shared scratch list - shows as a sequence whose output is
// not the concatenation of what each line yields on its own, or as a secret that survives.  All sequences up to a
// depth bound over the twin alphabet are run through the real stream code in one process; shared by C01 (no
// canary may survive), C04, C06, C12 (line-locality / homomorphism).

import (
	"fmt"
	"os"
	"path/filepath"
	"strings"
)

type twinSym struct {
	Name    string
	Text    string
	Secrets []string // canaries planted at SECRET positions of the line
}

func twinAlphabet() []twinSym {
	env := func(ctx, attr string) string {
		return `{"t":{"$date":"2024-05-01T10:00:00.123+00:00"},"s":"I","c":"COMMAND","id":51803,"ctx":"` + ctx + `","msg":"Slow query","attr":` + attr + `}`
	}
	lsid := `"lsid":{"id":{"$uuid":"0d6c2a1e-7a0c-4f5e-9c3b-0a1b2c3d4e5f"}}`
	return []twinSym{
		{"GM1", env("conn7", `{"type":"command","ns":"shop.orders","command":{"getMore":7469113720208097282,"collection":"orders","batchSize":5,`+lsid+`,"$db":"shop"},"originatingCommand":{"aggregate":"orders","pipeline":[{"$match":{"status":"q7Z~gm1a~kX"}},{"$limit":5}],"cursor":{"batchSize":5},"comment":"first","$db":"shop"},"nreturned":5,"durationMillis":11}`), []string{"q7Z~gm1a~kX"}},
		{"GM2", env("conn7", `{"type":"command","ns":"shop.orders","command":{"getMore":7469113720208097282,"collection":"orders","batchSize":9,`+lsid+`,"$db":"shop"},"originatingCommand":{"aggregate":"orders","pipeline":[{"$match":{"owner":{"$in":["q7Z~gm2a~kX",3]}}},{"$skip":2},{"$limit":9}],"cursor":{"batchSize":9},"allowDiskUse":true,"$db":"shop"},"nreturned":9,"durationMillis":12}`), []string{"q7Z~gm2a~kX"}},
		{"GM3", env("conn7", `{"type":"command","ns":"crm.people","command":{"getMore":7469113720208097282,"collection":"people","batchSize":2,`+lsid+`,"$db":"crm"},"originatingCommand":{"find":"people","filter":{"name":"q7Z~gm3a~kX"},"limit":4,"$db":"crm"},"nreturned":2,"durationMillis":13}`), []string{"q7Z~gm3a~kX"}},
		{"AG", env("conn8", `{"type":"command","ns":"shop.orders","command":{"aggregate":"orders","pipeline":[{"$densify":{"field":"ts","range":{"step":1,"unit":"hour","bounds":"full"}}},{"$match":{"k":"q7Z~ag~kX"}},{"$lookup":{"from":"items","localField":"a","foreignField":"b","as":"c"}}],"cursor":{},`+lsid+`,"$db":"shop"},"durationMillis":14}`), []string{"q7Z~ag~kX"}},
		{"UD", env("conn8", `{"type":"command","ns":"shop.orders","command":{"find":"orders","filter":{"range":{"step":"q7Z~ud1~kX","unit":"q7Z~ud2~kX","bounds":["q7Z~ud3~kX"]},"index":"q7Z~ud4~kX","path":"q7Z~ud5~kX","from":"q7Z~ud6~kX","as":{"localField":"q7Z~ud7~kX"}},"limit":5,`+lsid+`,"$db":"shop"},"durationMillis":15}`), []string{"q7Z~ud1~kX", "q7Z~ud2~kX", "q7Z~ud3~kX", "q7Z~ud4~kX", "q7Z~ud5~kX", "q7Z~ud6~kX", "q7Z~ud7~kX"}},
		{"SR", env("conn8", `{"type":"command","ns":"shop.orders","command":{"aggregate":"orders","pipeline":[{"$search":{"index":"default","text":{"query":"q7Z~sr~kX","path":"bio"}}},{"$limit":3}],"cursor":{},"$db":"shop"},"durationMillis":16}`), []string{"q7Z~sr~kX"}},
		{"F1", env("conn9", `{"type":"command","ns":"shop.orders","command":{"find":"orders","filter":{"a":"q7Z~f1~kX"},"limit":5,"skip":1,`+lsid+`,"$db":"shop"},"planSummary":"IXSCAN { a: 1 }","durationMillis":17}`), []string{"q7Z~f1~kX"}},
		{"F2", env("conn9", `{"type":"command","ns":"shop.orders","command":{"find":"orders","filter":{"a":{"$gt":"q7Z~f2~kX"},"b":"q7Z~f2b~kX"},"limit":7,`+lsid+`,"$db":"shop"},"planSummary":"IXSCAN { a: 1, b: 1 }","durationMillis":18}`), []string{"q7Z~f2~kX", "q7Z~f2b~kX"}},
		// the members of the line in another order (attr first, component and message last): the same document
		{"RO", `{"attr":{"durationMillis":21,"command":{"$db":"shop","limit":2,"filter":{"a":"q7Z~ro1~kX","n":{"$lt":"q7Z~ro2~kX"}},"find":"orders"},"ns":"shop.orders","type":"command"},"msg":"Slow query","ctx":"conn9","id":51803,"c":"COMMAND","s":"I","t":{"$date":"2024-05-01T10:00:00.123+00:00"}}`, []string{"q7Z~ro1~kX", "q7Z~ro2~kX"}},
		// literals that are hostile to anything that frames lines or tracks strings by hand: ending in a backslash, holding
		// quotes, brackets, an escaped line break
		{"BS", env("conn9", `{"type":"command","ns":"shop.orders","command":{"find":"orders","filter":{"p":"C:\\data\\q7Z~bs1~kX\\","q":"q7Z~bs2~kX {\"x\": [","r":"line1\nline2 q7Z~bs3~kX\\"},`+lsid+`,"$db":"shop"},"durationMillis":20}`), []string{"q7Z~bs1~kX", "q7Z~bs2~kX", "q7Z~bs3~kX"}},
		{"UP", env("conn9", `{"type":"command","ns":"shop.orders","command":{"update":"orders","updates":[{"q":{"a":"q7Z~up1~kX"},"u":{"$set":{"range":{"step":"q7Z~up2~kX"}}},"multi":false}],"ordered":true,`+lsid+`,"$db":"shop"},"durationMillis":19}`), []string{"q7Z~up1~kX", "q7Z~up2~kX"}},
	}
}

var twinFlagSets = []Flags{{}, {W: true}, {N: true, B: true, I: true, W: true, R: "<x>", F: []string{"shop"}}}

// twinHistories runs every sequence of 1..depth twin lines under every flag set of fsets through the real stream code.
func twinHistories(c *Ctx, prop string, fsets []Flags) {
	alpha := twinAlphabet()
	depth := 3
	if c.Thorough() {
		depth = 4
	}
	twinDir := freshDir(c.Scratch, "twins")
	twinKey := writeKeyFile(twinDir)
	for fi, fl := range fsets {
		fl.Apply()
		ref := make([]string, len(alpha))
		usable := make([]bool, len(alpha))
		// the reference (each line on its own) comes from a FRESH process per line - the pristine CLI on a one-line
		// file - because this process is not fresh: state carried between lines would pollute a reference taken here
		fresh := make([]string, len(alpha))
		freshOK := make([]bool, len(alpha))
		for i, s := range alpha {
			inPath := filepath.Join(twinDir, "one.log")
			os.WriteFile(inPath, []byte(s.Text+"\n"), 0o644)
			args := append([]string{"redact", inPath}, fl.CLIArgs(twinKey)...)
			outPath := ""
			if fl.Y {
				outPath = filepath.Join(twinDir, "one.out")
				os.Remove(outPath)
				args = append(args, "--outputFile", outPath)
			}
			res, err := runCLI(CLIRun{Bin: c.CLI, Args: args, Dir: twinDir})
			if err != nil {
				c.HarnessError("twin lines: CLI run: %v", err)
				return
			}
			got := string(res.Stdout)
			if outPath != "" {
				b, _ := os.ReadFile(outPath)
				got = string(b)
			}
			if res.Exit == 0 && strings.Count(got, "\n") == 1 {
				fresh[i], freshOK[i] = strings.TrimSuffix(got, "\n"), true
			}
		}
		for i, s := range alpha {
			o, ok, pv := redactLine(s.Text)
			if pv == nil && ok && freshOK[i] && o != fresh[i] {
				c.Violate("twins:single-line-depends-on-history", fmt.Sprintf("the line %s, flags [%s]: a fresh process (the CLI on a one-line file) and this process, which has handled other lines before, give different results; first difference near %q", s.Name, fl, trunc(firstDiffCtx([]byte(o), []byte(fresh[i])), 160)), 0,
					map[string]any{"kind": "twin-sequence", "sequence": s.Name, "lines": []string{s.Text}, "flags": fl.String(), "expected": fresh[i], "got": o}, nil)
			}
			if freshOK[i] {
				o, ok = fresh[i], true
			}
			if pv != nil || !ok {
				c.Note("twin line %s is rejected / panics on its own under [%s] (C07's / C06's concern): left out", s.Name, fl)
				continue
			}
			usable[i] = true
			ref[i] = o + "\n"
			if prop == "C01" {
				for _, can := range s.Secrets {
					if strings.Contains(o, can) {
						c.Violate("leak:twin-line:"+s.Name, fmt.Sprintf("the line %s on its own, flags [%s]: the literal %s survives: %s", s.Name, fl, can, trunc(o, 400)), 0,
							map[string]any{"kind": "redact-line", "input": s.Text, "flags": fl.String(), "output": o}, nil)
					}
				}
			}
		}
		var no int64
		var seq []int
		var rec func()
		rec = func() {
			if len(seq) > 0 {
				no++
				if c.Mine(no) {
					var lines []string
					want, name := "", ""
					for _, i := range seq {
						lines = append(lines, alpha[i].Text)
						want += ref[i]
						name += alpha[i].Name + " "
					}
					name = strings.TrimSpace(name)
					out, err, pv := c06RunInproc(strings.Join(lines, "\n")+"\n", len(lines), "reader", "nobar")
					c.Eval(1)
					c.Distinct(fmt.Sprintf("twins|%d|%v", fi, seq))
					rp := map[string]any{"kind": "twin-sequence", "sequence": name, "lines": lines, "flags": fl.String(), "expected": want, "got": out}
					switch {
					case pv != nil || err != nil:
						c.Violate("twins:abort", fmt.Sprintf("sequence [%s] of twin lines, flags [%s]: the run aborts (%v %v)", name, fl, err, pv), int64(len(seq)), rp, nil)
					case prop == "C01":
						for k, i := range seq {
							for _, can := range alpha[i].Secrets {
								if strings.Contains(out, can) {
									c.Violate("leak:twin-sequence:"+alpha[i].Name, fmt.Sprintf("sequence [%s] in one run, flags [%s]: the literal %s of line %d (%s) survives although the same line on its own is clean", name, fl, can, k, alpha[i].Name), int64(len(seq)), rp, nil)
								}
							}
						}
					case prop == "C12" && fl.W && twinNamesLeft(out) != "":
						c.Violate("ns-leak:twin-sequence", fmt.Sprintf("sequence [%s] in one run, flags [%s]: the name %s is still in the output", name, fl, twinNamesLeft(out)), int64(len(seq)), rp, nil)
					case out != want:
						c.Violate("twins:not-the-concatenation", fmt.Sprintf("sequence [%s] of lines that share namespace / cursor id / session / argument words, flags [%s]: the output is not the concatenation of what each line yields on its own; first difference near %q", name, fl, trunc(firstDiffCtx([]byte(out), []byte(want)), 160)), int64(len(seq)), rp, nil)
					}
				}
			}
			if len(seq) == depth {
				return
			}
			for i := range alpha {
				if !usable[i] {
					continue
				}
				seq = append(seq, i)
				rec()
				seq = seq[:len(seq)-1]
			}
		}
		rec()
		c.Count("twin_sequences", no)
	}
	Flags{}.Apply()
}

// twinNamesLeft: a database / collection name of the twin lines (they occur at namespace positions only) that is
// still present as a whole string value or as a component of a dotted one.
func twinNamesLeft(out string) string {
	for _, n := range []string{"shop", "orders", "crm", "people", "items"} {
		for _, form := range []string{`"` + n + `"`, `"` + n + `.`, `.` + n + `"`} {
			if strings.Contains(out, form) {
				return n
			}
		}
	}
	return ""
}

// freshSolo: what one line yields in a FRESH process - the pristine CLI on a one-line file.  ok=false if the run fails
// or does not produce exactly zero or one line.
func freshSolo(c *Ctx, dir, key string, fl Flags, line string) (out string, ok bool) {
	inPath := filepath.Join(dir, "solo-one.log")
	os.WriteFile(inPath, []byte(line+"\n"), 0o644)
	args := append([]string{"redact", inPath}, fl.CLIArgs(key)...)
	outPath := ""
	if fl.Y {
		outPath = filepath.Join(dir, "solo-one.out")
		os.Remove(outPath)
		args = append(args, "--outputFile", outPath)
	}
	res, err := runCLI(CLIRun{Bin: c.CLI, Args: args, Dir: dir})
	if err != nil || res.Exit != 0 {
		return "", false
	}
	got := string(res.Stdout)
	if outPath != "" {
		b, _ := os.ReadFile(outPath)
		got = string(b)
	}
	if strings.Count(got, "\n") > 1 || (got != "" && !strings.HasSuffix(got, "\n")) {
		return got, false
	}
	return got, true
}

// badLineHistories: long histories of ONE kind of damaged line, each followed by an intact line.  A damaged line may
// leave something behind in the process (a depth counter not wound back, a buffer not emptied, an error that sticks)
// that only matters after many of them.  For every damage class and N pairs (damaged, intact) in one stream: the
// output is the concatenation of what each line yields in a fresh process.
func badLineHistories(c *Ctx, prop string) {
	dir := freshDir(c.Scratch, "badhist")
	key := writeKeyFile(dir)
	deep := `{"t":{"$date":"2024-05-01T10:00:07.000+00:00"},"s":"I","c":"COMMAND","id":51803,"ctx":"conn3","msg":"Slow query","attr":{"type":"command","ns":"shop.orders","command":{"find":"orders","filter":` + strings.Repeat(`{"k":`, 40) + `"deep secret"` + strings.Repeat(`}`, 40) + `,"$db":"shop"},"durationMillis":5}}`
	arrDeep := `{"t":{"$date":"2024-05-01T10:00:08.000+00:00"},"s":"I","c":"STORAGE","id":22430,"ctx":"Checkpointer","msg":"WiredTiger message","attr":{"message":` + strings.Repeat(`[`, 60) + `7469113720208097282` + strings.Repeat(`]`, 60) + `}}`
	good := []string{c06Alphabet()[0].Text, deep, c06Alphabet()[2].Text, arrDeep}
	full := c06Alphabet()[0].Text
	classes := []struct{ name, line string }{
		{"cut-after-a-value-in-an-open-object", `{"t":{"$date":"2024-05-01T10:00:00.123+00:00"},"c":"COMMAND","attr":{"a":{"b":1`},
		{"cut-after-an-array-element", `{"c":"COMMAND","msg":"Slow query","attr":{"command":{"find":"c","filter":{"a":{"$in":[1,2`},
		{"array-closed-by-a-brace", `{"c":"COMMAND","attr":{"a":[1}}}`},
		{"object-closed-by-a-bracket", `{"c":"COMMAND","attr":{"a":{"b":1]}}`},
		{"cut-inside-a-string", full[:strings.Index(full, "alice")+3]},
		{"cut-inside-a-key", full[:strings.Index(full, `"filter"`)+4]},
		{"cut-after-a-colon", full[:strings.Index(full, `"filter":`)+9]},
		{"cut-after-a-comma", full[:strings.Index(full, `,"ctx"`)+1]},
		{"one-closing-brace-too-many", full + "}"},
		{"object-followed-by-text", full + " trailing"},
		{"text", "2024-05-01T10:00:00.123+0000 I NETWORK  [conn12] end connection 127.0.0.1:51234"},
		{"top-level-number", "12345"},
		{"top-level-array", `[{"c":"COMMAND"}]`},
		{"unclosed-arrays-50-deep", `{"c":"COMMAND","attr":{"a":` + strings.Repeat("[", 50)},
		{"unclosed-objects-50-deep", `{"c":"COMMAND","attr":` + strings.Repeat(`{"a":`, 50)},
		{"invalid-escape", `{"c":"COMMAND","attr":{"a":"\q"}}`},
		{"invalid-utf8", "{\"c\":\"COMMAND\",\"attr\":{\"a\":\"\xff\xfe\"}}"},
		{"number-under-date", `{"c":"COMMAND","msg":"Slow query","attr":{"command":{"find":"c","filter":{"a":{"$date":12345}}}}}`},
		{"very-deep-complete-line", `{"c":"COMMAND","msg":"Slow query","attr":{"command":{"find":"c","filter":` + strings.Repeat(`{"k":`, 400) + `1` + strings.Repeat(`}`, 400) + `}}}`},
	}
	n := 320
	if c.Thorough() {
		n = 3000
	}
	fsets := []Flags{{}, {N: true, B: true, I: true, W: true, F: []string{"shop"}}}
	var no int64
	for _, fl := range fsets {
		goodSolo := make([]string, len(good))
		for i, g := range good {
			o, ok := freshSolo(c, dir, key, fl, g)
			if !ok || o == "" {
				c.HarnessError("bad-line histories: an intact line fails on its own: %s", trunc(g, 200))
				return
			}
			goodSolo[i] = o
		}
		for _, cl := range classes {
			no++
			if !c.Mine(no) {
				continue
			}
			badSolo, ok := freshSolo(c, dir, key, fl, cl.line)
			if !ok {
				continue // the line alone already makes a run fail or yields several lines: C07's other sub-checks report that
			}
			fl.Apply()
			var in, want strings.Builder
			for k := 0; k < n; k++ {
				in.WriteString(cl.line + "\n" + good[k%len(good)] + "\n")
				want.WriteString(badSolo + goodSolo[k%len(good)])
			}
			for _, ch := range []string{"reader", "gzfile"} {
				out, err, pv := c06RunInproc(in.String(), 2*n, ch, "nobar")
				c.Eval(1)
				c.Distinct(fmt.Sprintf("badhist|%s|%s|%s", fl, cl.name, ch))
				rp := map[string]any{"kind": "bad-line-history", "class": cl.name, "damaged_line": trunc(cl.line, 300), "pairs": n, "flags": fl.String(), "channel": ch}
				if pv != nil || err != nil {
					c.Violate("bad-line-history:abort:"+cl.name, fmt.Sprintf("a stream of %d pairs (%s line, intact line) through %s, flags [%s]: the run aborts (%v %v)", n, cl.name, ch, fl, err, pv), int64(n), rp, nil)
					continue
				}
				if out != want.String() {
					gl, wl := strings.Split(out, "\n"), strings.Split(want.String(), "\n")
					k := 0
					for k < len(gl) && k < len(wl) && gl[k] == wl[k] {
						k++
					}
					c.Violate("bad-line-history:intact-lines-affected:"+cl.name, fmt.Sprintf("a stream of %d pairs (%s line, intact line) through %s, flags [%s]: %d output lines instead of %d; the first %d are right, i.e. the intact lines come out as they do in a fresh process only until enough damaged lines have gone by", n, cl.name, ch, fl, len(gl)-1, len(wl)-1, k), int64(k), rp, nil)
				}
			}
		}
	}
	Flags{}.Apply()
	_ = prop
}

const badHistRule = "; bad-line histories: for each of 19 damage classes (cut after a value / element / colon / comma, inside a string / key, wrong closer, extra closer, trailing text, text, scalars and arrays at top level, unclosed nests, invalid escape / UTF-8, wrong-typed wrapper, very deep line) a stream of 320 (thorough 3 000) pairs (damaged line, intact line - shallow, 40 objects deep, another component, 60 arrays deep) through the real stream code, expected output from fresh processes"

const twinRule = "; twin lines: every sequence of 1..3 (thorough 4) lines over 11 lines that share namespace, cursor id, connection, session or use an operator's argument words as user field names (getMore twins with different originating commands, $densify / $search / $lookup next to user data spelled range.step / index / path / from / as, find twins, an update, a line with its members in another order, a line whose literals end in a backslash and hold quotes / brackets) through the real stream code in one process"
