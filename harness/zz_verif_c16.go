//go:build verif

package main

// C16 — Atlas mode fetches exactly the requested logs and redacts each into its own file.
// C17 — raw downloaded logs never outlive the run.
// C20 — the Atlas private key never leaves the process except as a digest response.
// All three enumerate the tree of server behaviours (zz_verif_atlasrun.go) and execute every script on
// the implementation, at the library level in-process and through the real main() in a child process.

import (
	"bytes"
	"fmt"
	"os"
	"path/filepath"
	"sort"
	"strings"
)

type atlasVisit func(r *atlasRun, o *atlasObs, choices []int)

// atlasExplore enumerates scripts and executes each at the requested levels.
func atlasExplore(c *Ctx, o atlasGenOpts, bound int, flagSets []Flags, lib, cli bool, visit atlasVisit) {
	var cur *atlasRun
	base := freshDir(c.Scratch, "atlas")
	// every worker generates every script (cheap) and executes its round-robin share (balanced)
	var no int64
	st := Explore(func(x *X) { cur = genAtlasRun(x, o) }, ExploreOpts{Bound: bound}, func(x *X) {
		no++
		if !c.Mine(no) {
			return
		}
		c.P.States++
		for fi, fl := range flagSets {
			r := *cur
			r.Fl = fl
			if fi > 0 {
				if _, _, ok, _ := r.model(); !ok {
					continue // redaction flags only matter when something gets redacted
				}
			}
			c.Distinct(r.String())
			if lib {
				ob := execAtlasLib(&r, freshDir(base, "run"))
				c.Eval(1)
				c.P.Transitions += int64(len(ob.Reqs))
				c.P.Traces++
				visit(&r, ob, x.Trace())
				if repeatedRequest(ob.Reqs) {
					// the client asked again: enumerate what it can be told the second time
					c.Count("repeat_expansions", 1)
					for _, a := range retryMenu[1:] {
						r2 := r.withRetry(a)
						ob2 := execAtlasLib(r2, freshDir(base, "run"))
						c.Eval(1)
						c.P.Transitions += int64(len(ob2.Reqs))
						c.P.Traces++
						visit(r2, ob2, x.Trace())
					}
				}
			}
			if cli {
				ob, err := execAtlasCLI(c, &r, freshDir(base, "run"))
				if err != nil {
					c.HarnessError("atlas CLI run: %v", err)
					return
				}
				c.Eval(1)
				c.Count("cli_runs", 1)
				c.P.Transitions += int64(len(ob.Reqs))
				c.P.Traces++
				visit(&r, ob, x.Trace())
				if repeatedRequest(ob.Reqs) {
					c.Count("repeat_expansions", 1)
					for _, a := range retryMenu[1:] {
						r2 := r.withRetry(a)
						ob2, err := execAtlasCLI(c, r2, freshDir(base, "run"))
						if err != nil {
							c.HarnessError("atlas CLI run: %v", err)
							return
						}
						c.Eval(1)
						c.Count("cli_runs", 1)
						c.P.Transitions += int64(len(ob2.Reqs))
						c.P.Traces++
						visit(r2, ob2, x.Trace())
					}
				}
			}
		}
	})
	if c.Shard == 0 {
		c.Count("scripts", st.Executions)
	}
	c.Count("max:script_depth", int64(st.MaxDepth))
}

func atlasReplay(r *atlasRun, o *atlasObs, choices []int, extra map[string]any) map[string]any {
	m := map[string]any{"kind": "atlas-script", "level": o.Level, "script": r.String(), "choices": choices, "requests": reqSummary(o.Reqs), "exit": o.Exit, "stderr": trunc(o.Stderr, 400)}
	for k, v := range extra {
		m[k] = v
	}
	return m
}

// expected output of host i under the flags: the redaction of its payload by the stream code itself
// (the flag wiring argv -> setters is tied to the in-process setters by C01's CLI pass)
func expectedOut(r *atlasRun, i int) ([]byte, bool) {
	r.Fl.Apply()
	defer Flags{}.Apply()
	var out bytes.Buffer
	fr := &c06FR{data: payloadBytes(r.Hosts[i].Payload, r.Hosts[i].Name), ext: ".gz"}
	if err := ProcessMongoLogFile(fr, "x.gz", &out, nil); err != nil {
		return out.Bytes(), false
	}
	return out.Bytes(), true
}

func c16Run(c *Ctx) {
	ns := "shop.orders"
	fsets := []Flags{{}, {N: true, B: true, I: true, W: true}, {R: customReplacement, F: []string{ns}}, {Z: "^email$"}, {I: true, R: "x"}}
	if !c.Thorough() {
		fsets = fsets[:3]
	}
	visit := func(r *atlasRun, o *atlasObs, choices []int) {
		viol := func(sig, what string, extra map[string]any) {
			c.Outcome("mismatch")
			c.Violate("atlas:"+o.Level+":"+sig, fmt.Sprintf("%s level, script {%s}: %s", o.Level, r, what), int64(len(r.Hosts)*100+len(choices)), atlasReplay(r, o, choices, extra), nil)
		}
		if sig, what := checkRequests(r, o); sig != "" {
			viol(sig, what, nil)
			return
		}
		_, _, success, where := r.model()
		if where == "srv" {
			c.Outcome("srv-open")
			return
		}
		if success != (o.Exit == 0) {
			viol("exit-status", fmt.Sprintf("the model says success=%v (%s) but the run ends with status %d: %s", success, where, o.Exit, trunc(o.Stderr, 200)), nil)
			return
		}
		if !success {
			c.Outcome("failure-as-modelled")
			return
		}
		// downloaded bytes stored verbatim (library level: the temp files are read before clean-up)
		if o.Level == "library" {
			for i, h := range r.Hosts {
				if !bytes.Equal(o.TempCopy[i], payloadBytes(h.Payload, h.Name)) {
					viol("temp-file-bytes", fmt.Sprintf("the temp file of host %d does not hold the downloaded bytes verbatim (%d vs %d bytes)", i, len(o.TempCopy[i]), len(payloadBytes(h.Payload, h.Name))), nil)
					return
				}
			}
		}
		// <out>.<i> = redaction of host i's payload; any other file in the output directory must be empty
		// (main() itself creates an empty <out>)
		for n, b := range o.OutFiles {
			known := false
			for i := range r.Hosts {
				if n == fmt.Sprintf("out.log.%d", i) {
					known = true
				}
			}
			if !known && len(b) > 0 {
				viol("unexpected-output-file", fmt.Sprintf("the output directory holds %s (%d bytes) next to the per-host files", n, len(b)), nil)
				return
			}
		}
		for i := range r.Hosts {
			want, _ := expectedOut(r, i)
			got, ok := o.OutFiles[fmt.Sprintf("out.log.%d", i)]
			if !ok {
				viol("output-file-missing", fmt.Sprintf("out.log.%d is missing", i), nil)
				return
			}
			if !bytes.Equal(got, want) {
				// is it another host's log?
				other := -1
				for k := range r.Hosts {
					if w2, _ := expectedOut(r, k); k != i && bytes.Equal(got, w2) {
						other = k
					}
				}
				if other >= 0 {
					viol("output-host-mixup", fmt.Sprintf("out.log.%d holds the redacted log of host %d", i, other), nil)
				} else {
					viol("output-content", fmt.Sprintf("out.log.%d is not the redaction of host %d's payload under flags [%s]: %d vs %d bytes; first difference near %q", i, i, r.Fl, len(got), len(want), trunc(firstDiffCtx(got, want), 120)), nil)
				}
				return
			}
		}
		c.Outcome("success-as-modelled")
		if c.Shard == 0 && len(c.P.Samples) < 4 {
			c.Sample(map[string]any{"script": r.String(), "requests": reqSummary(o.Reqs), "level": o.Level})
		}
	}
	// success side: every request challenged or not, hosts 1..5, payload kinds (processable ones matter), windows
	maxH := 3
	if c.Thorough() {
		maxH = 5
	}
	b := 1
	if c.Thorough() {
		b = 2
	}
	for hn := 0; hn < 2; hn++ {
		atlasExplore(c, atlasGenOpts{MaxHosts: maxH, SuccessOnly: true, HostNames: hn}, b, fsets, true, false, visit)
	}
	// CLI: same tree with fewer hosts at quick
	mh := 2
	if c.Thorough() {
		mh = 4
	}
	atlasExplore(c, atlasGenOpts{MaxHosts: mh, SuccessOnly: true, HostNames: 1, Supplies: c.Thorough()}, b, fsets[:2], false, true, visit)
	// 4 and 5 hosts with cooperative, challenging server only
	atlasExplore(c, atlasGenOpts{MaxHosts: 5, MinHosts: 4, SuccessOnly: true, AlwaysChallenge: true, HostNames: 1}, 1, fsets[:2], true, !c.Thorough(), visit)
	// the full behaviour tree: request log and exit status must follow the model on the failure side as well
	atlasExplore(c, atlasGenOpts{MaxHosts: 3, HostNames: 1}, 1, fsets[:1], true, false, visit)
	atlasExplore(c, atlasGenOpts{MaxHosts: 2, HostNames: 1}, 1, fsets[:1], false, true, visit)
}

func firstDiffCtx(a, b []byte) string {
	n := len(a)
	if len(b) < n {
		n = len(b)
	}
	i := 0
	for i < n && a[i] == b[i] {
		i++
	}
	s := i - 30
	if s < 0 {
		s = 0
	}
	e := i + 60
	if e > len(a) {
		e = len(a)
	}
	return string(a[s:e])
}

// ---------------------------------------------------------------------------------------------- C17

func c17Run(c *Ctx) {
	visit := func(r *atlasRun, o *atlasObs, choices []int) {
		if len(o.TmpLeft) == 0 {
			c.Outcome("tmpdir-empty")
			if c.Shard == 0 && len(c.P.Samples) < 4 && len(choices)%3 == 0 {
				c.Sample(map[string]any{"script": r.String(), "requests": reqSummary(o.Reqs), "level": o.Level, "exit": o.Exit})
			}
			return
		}
		c.Outcome("temp-file-left")
		_, dl, success, where := r.model()
		var names []string
		partial := false
		for n, b := range o.TmpLeft {
			names = append(names, fmt.Sprintf("%s (%d bytes)", n, len(b)))
			full := false
			for _, h := range r.Hosts {
				if bytes.Equal(b, payloadBytes(h.Payload, h.Name)) {
					full = true
				}
			}
			if !full {
				partial = true
			}
		}
		sort.Strings(names)
		stage := "after-success"
		if !success {
			stage = "after-failure-at-" + strings.Fields(where)[0]
		}
		kind := "complete-log"
		if partial {
			kind = "partial-log"
		}
		c.Violate("tempfile:"+o.Level+":"+stage+":"+kind, fmt.Sprintf("%s level, script {%s}: %d downloaded file(s) left in the temporary directory after the run (status %d, %d downloads completed, failing step: %s): %v", o.Level, r, len(o.TmpLeft), o.Exit, dl, where, names),
			int64(len(r.Hosts)*100+len(choices)), atlasReplay(r, o, choices, map[string]any{"left": names}), nil)
	}
	b := 1
	if c.Thorough() {
		b = 2
	}
	atlasExplore(c, atlasGenOpts{MaxHosts: 4, HostNames: 1}, b, []Flags{{}}, true, false, visit)
	mh := 3
	if c.Thorough() {
		mh = 4
	}
	atlasExplore(c, atlasGenOpts{MaxHosts: mh, HostNames: 1}, 1, []Flags{{}}, false, true, visit)
	// the same directory under other spellings of TMPDIR (trailing slash, "/./", "//", through a symbolic link):
	// the full behaviour tree for up to 2 hosts at both levels
	for tf := 1; tf < len(tmpForms); tf++ {
		atlasExplore(c, atlasGenOpts{MaxHosts: 2, HostNames: 1, TmpForm: tf}, b-1, []Flags{{}}, true, false, visit)
		atlasExplore(c, atlasGenOpts{MaxHosts: 2, HostNames: 1, TmpForm: tf}, 0, []Flags{{}}, false, c.Thorough() || tf == 1, visit)
	}
}

// ---------------------------------------------------------------------------------------------- C20

func c20Run(c *Ctx) {
	if findKey(atlasPub+" "+atlasProject) != "" {
		c.HarnessError("the private-key canary occurs in the public parts")
		return
	}
	visit := func(r *atlasRun, o *atlasObs, choices []int) {
		viol := func(sig, what string) {
			c.Outcome("key-exposed")
			c.Violate("privkey:"+o.Level+":"+sig, fmt.Sprintf("%s level, script {%s}: %s", o.Level, r, what), int64(len(r.Hosts)*100+len(choices)), atlasReplay(r, o, choices, nil), nil)
		}
		challenged := false
		clean := true
		for i, q := range o.Reqs {
			var sb strings.Builder
			sb.WriteString(q.Method + " " + q.URL + "\n")
			for k, vs := range q.Header {
				sb.WriteString(k + ": " + strings.Join(vs, ", ") + "\n")
			}
			sb.WriteString(q.Body)
			if f := findKey(sb.String()); f != "" {
				viol("in-request:"+f, fmt.Sprintf("request %d (%s %s, answer to it: %s) carries the private key (%s)", i, q.Kind, q.LogHost, q.Answer, f))
				clean = false
			}
			if q.Auth != "" && !challenged {
				viol("credentials-without-challenge", fmt.Sprintf("request %d carries an Authorization header (%s) although the server has not sent a digest challenge", i, q.Auth))
				clean = false
			}
			if q.Auth != "" && q.Auth != "digest-ok" {
				viol("non-digest-credentials:"+q.Auth, fmt.Sprintf("request %d carries credentials that are not a digest response (%s): %s", i, q.Auth, trunc(strings.Join(q.Header["Authorization"], ","), 80)))
				clean = false
			}
			if isChallenge(q.Answer) || q.Answer == Ans401Offer {
				challenged = true
			} else if q.Auth != "" {
				challenged = false // one challenge, one answer
			}
			if q.Scheme != "https" || q.Host != atlasHost {
				viol("foreign-endpoint", fmt.Sprintf("request %d goes to %s://%s", i, q.Scheme, q.Host))
				clean = false
			}
		}
		for name, text := range map[string]string{"stdout": o.Stdout, "stderr": o.Stderr} {
			if f := findKey(text); f != "" {
				viol("in-"+name+":"+f, fmt.Sprintf("the private key (%s) appears in %s: %s", f, name, trunc(text, 300)))
				clean = false
			}
		}
		for _, set := range []map[string][]byte{o.TmpLeft, o.OutFiles} {
			for n, b := range set {
				if f := findKey(string(b)); f != "" {
					viol("in-file:"+f, fmt.Sprintf("the private key (%s) appears in the file %s", f, n))
					clean = false
				}
			}
		}
		if clean {
			c.Outcome("key-confined")
			if c.Shard == 0 && len(c.P.Samples) < 4 && len(choices)%3 == 0 {
				c.Sample(map[string]any{"script": r.String(), "requests": reqSummary(o.Reqs), "level": o.Level, "exit": o.Exit})
			}
		}
	}
	b := 1
	if c.Thorough() {
		b = 2
	}
	atlasExplore(c, atlasGenOpts{MaxHosts: 3, HostNames: 0}, b, []Flags{{}}, true, false, visit)
	mh := 2
	if c.Thorough() {
		mh = 3
	}
	atlasExplore(c, atlasGenOpts{MaxHosts: mh, HostNames: 0, Supplies: true}, 1, []Flags{{}}, false, true, visit)
	// child environment / argv files are not artefacts of the run; the sandbox directory of the last
	// run is scanned once more as a whole (cwd, HOME) for anything that is not the harness' own script
	_ = os.Remove(filepath.Join(c.Scratch, "atlas", "run", "script.json"))
	for n, bts := range listFiles(filepath.Join(c.Scratch, "atlas", "run")) {
		if strings.HasPrefix(n, "requests.jsonl") {
			continue
		}
		if f := findKey(string(bts)); f != "" {
			c.Violate("privkey:cli:in-sandbox-file:"+f, fmt.Sprintf("the private key (%s) appears in %s in the sandbox of a run", f, n), 0, map[string]any{"kind": "sandbox-scan", "file": n}, nil)
		}
	}
}

func atlasPost(c *Ctx, m *Part) {}

func init() {
	tree := "the tree of distinguishable server behaviours, generated lazily by the explorer: for the cluster lookup and then for each host in order, the answer to the unauthenticated request {digest challenge, 200 without challenge, Basic challenge, 401 without header, 403, 404, 500 echoing the request headers, connection reset, malformed digest challenge} and, after a challenge, the answer to the authenticated request {200, 401, 403, 404, 500-echo, connection reset, 200 with the body cut after 0 / 1 / half / all-but-one bytes}; requests after a failing one are never generated because the model says none is sent"
	register(&PropDef{
		ID: "C16", Level: "model_checking",
		Rule:        "success side of " + tree + " (every request challenged or not) x 1..5 hosts (two name sets, one whose order differs from sorted order) x ports {all, none, mixed} x window flags {none, both} x payload kinds {valid, gzip of nothing, multi-member, 1500 lines, zero bytes, not gzip, over-long line, blank/garbage lines} as deviations (quick <=1, thorough <=2) x redaction flag sets, at the library level (DownloadClusterLogs + ProcessMongoLogFile + DeleteClusterLogs as main() calls them) and through the real main() in a child process; plus the full tree with faults (<=1 deviation) for 3 / 2 hosts. Reference model (DESIGN.md 2.9): exact request sequence (one cluster GET, then per host in connection-string order one download, each preceded at most by its challenge round), all to https://cloud.mongodb.com, project / cluster / host in the path, startDate / endDate equal to the flags or [now-7d, now]; every Authorization header must be a digest response that verifies against the key pair; exit status class; temp files hold the payload bytes verbatim; <out>.<i> equals the redaction of payload i under the flags and nothing else is in the output directory. states = scripts, transitions = requests, every script executed on the implementation",
		Assumptions: []string{"SRV connection strings need DNS: only 'no credential leaves, nothing foreign is contacted' is checked for them", "net/http, TLS and sockets below http.DefaultTransport are trusted", "the redaction flags reach the child through the argv wiring that C01's CLI pass ties to the in-process setters"},
		Run:         c16Run, Post: atlasPost,
	})
	register(&PropDef{
		ID: "C17", Level: "fault_enumeration",
		Rule:        tree + " x 1..4 hosts x cluster description kinds {standard, SRV, not JSON, no connection string, malformed string} x payload kinds x output faults {<out>.<k> is a directory for each k, output directory missing} as deviations (quick <=1, thorough <=2), at the library level and (<=1 deviation, 3 / 4 hosts) through the real main() in a child process with its own TMPDIR. Oracle: after the function returns / the process exits, TMPDIR holds no file - on success and on every failure. distinct = distinct scripts",
		Assumptions: []string{"TMPDIR is the only place downloads are stored (os.CreateTemp with the default directory)"},
		Run:         c17Run,
	})
	register(&PropDef{
		ID: "C20", Level: "fault_enumeration",
		Rule:        tree + " x 1..3 hosts x deviations (cluster description kinds, payload kinds, output faults) x ways of supplying the key pair {both flags, both environment, public flag + private environment, public environment + private flag}, at the library level and through the real main() in a child process. Oracle: the private-key canary (characters that change under URL-, base64- and JSON-encoding) in the forms verbatim / URL-encoded / path-escaped / base64 / base64url / base64(public:private) / JSON-escaped occurs in no request line, header or body, not in stdout, stderr, output files, files left in TMPDIR or the sandbox; no Authorization header is sent before a digest challenge was received, every Authorization header is a digest response, every request goes to https://cloud.mongodb.com. distinct = distinct scripts",
		Assumptions: []string{"HTTP redirects and proxies are not among the scripted behaviours", "the digest response itself (an MD5 over the key) is the sanctioned use"},
		Run:         c20Run,
	})
}
