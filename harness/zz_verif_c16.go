//go:build verif

package main

// C16 — Atlas mode fetches exactly the requested logs and redacts each into its own file.
// C17 — raw downloaded logs never outlive the run.
// C20 — the Atlas private key never leaves the process except as a digest response.
// All three enumerate the tree of server behaviours (zz_verif_atlasrun.go) and execute every script on
// the implementation, at the library level in-process and through the real main() in a child process.

import (
	"bytes"
	"compress/gzip"
	"encoding/base64"
	"fmt"
	"io"
	"os"
	"path/filepath"
	"sort"
	"strings"
)

type atlasVisit func(r *atlasRun, o *atlasObs, choices []int)

// atlasExplore enumerates scripts and executes each at the requested levels.
func atlasExplore(c *Ctx, o atlasGenOpts, bound int, flagSets []Flags, lib, cli bool, visit atlasVisit) {
	atlasExploreWith(c, o, bound, flagSets, lib, cli, visit, nil)
}

func atlasExploreWith(c *Ctx, o atlasGenOpts, bound int, flagSets []Flags, lib, cli bool, visit atlasVisit, adjust func(r *atlasRun)) {
	var cur *atlasRun
	base := freshDir(c.Scratch, "atlas")
	// every worker generates every script (cheap) and executes its round-robin share (balanced)
	var no int64
	st := Explore(func(x *X) { cur = genAtlasRun(x, o) }, ExploreOpts{Bound: bound}, func(x *X) {
		no++
		if !c.Mine(no) {
			return
		}
		c.P.States++
		for fi, fl := range flagSets {
			r := *cur
			r.Fl = fl
			if adjust != nil {
				adjust(&r)
			}
			if fi > 0 {
				if _, _, ok, _ := r.model(); !ok {
					continue // redaction flags only matter when something gets redacted
				}
			}
			c.Distinct(r.String())
			if lib {
				ob := execAtlasLib(&r, freshDir(base, "run"))
				c.Eval(1)
				c.P.Transitions += int64(len(ob.Reqs))
				c.P.Traces++
				visit(&r, ob, x.Trace())
				if repeatedRequest(ob.Reqs) {
					// the client asked again: enumerate what it can be told the second time
					c.Count("repeat_expansions", 1)
					for _, a := range retryMenu[1:] {
						r2 := r.withRetry(a)
						ob2 := execAtlasLib(r2, freshDir(base, "run"))
						c.Eval(1)
						c.P.Transitions += int64(len(ob2.Reqs))
						c.P.Traces++
						visit(r2, ob2, x.Trace())
					}
				}
			}
			if cli {
				ob, err := execAtlasCLI(c, &r, freshDir(base, "run"))
				if err != nil {
					c.HarnessError("atlas CLI run: %v", err)
					return
				}
				c.Eval(1)
				c.Count("cli_runs", 1)
				c.P.Transitions += int64(len(ob.Reqs))
				c.P.Traces++
				visit(&r, ob, x.Trace())
				if repeatedRequest(ob.Reqs) {
					c.Count("repeat_expansions", 1)
					for _, a := range retryMenu[1:] {
						r2 := r.withRetry(a)
						ob2, err := execAtlasCLI(c, r2, freshDir(base, "run"))
						if err != nil {
							c.HarnessError("atlas CLI run: %v", err)
							return
						}
						c.Eval(1)
						c.Count("cli_runs", 1)
						c.P.Transitions += int64(len(ob2.Reqs))
						c.P.Traces++
						visit(r2, ob2, x.Trace())
					}
				}
			}
		}
	})
	if c.Shard == 0 {
		c.Count("scripts", st.Executions)
	}
	c.Count("max:script_depth", int64(st.MaxDepth))
}

func atlasReplay(r *atlasRun, o *atlasObs, choices []int, extra map[string]any) map[string]any {
	m := map[string]any{"kind": "atlas-script", "level": o.Level, "script": r.String(), "choices": choices, "requests": reqSummary(o.Reqs), "exit": o.Exit, "stderr": trunc(o.Stderr, 400)}
	for k, v := range extra {
		m[k] = v
	}
	return m
}

// expected output of host i under the flags: the redaction of its payload by the stream code itself
// (the flag wiring argv -> setters is tied to the in-process setters by C01's CLI pass)
func expectedOut(r *atlasRun, i int) ([]byte, bool) {
	r.Fl.Apply()
	defer Flags{}.Apply()
	if want, ok := expectedOutIndependent(payloadBytes(r.Hosts[i].Payload, r.Hosts[i].Name)); ok {
		return want, true
	}
	var out bytes.Buffer
	fr := &c06FR{data: payloadBytes(r.Hosts[i].Payload, r.Hosts[i].Name), ext: ".gz"}
	if err := ProcessMongoLogFile(fr, "x.gz", &out, nil); err != nil {
		return out.Bytes(), false
	}
	return out.Bytes(), true
}

// expectedOutIndependent: the redaction of a payload computed WITHOUT the tool's reader: the archive is
// decompressed by the harness (all members), split into lines, and each line that is a JSON object is redacted
// on its own.  ok=false for payloads the tool must refuse (not gzip, over-long line) — the caller falls back.
func expectedOutIndependent(payload []byte) ([]byte, bool) {
	zr, err := gzip.NewReader(bytes.NewReader(payload))
	if err != nil {
		return nil, false
	}
	text, err := io.ReadAll(zr)
	if err != nil {
		return nil, false
	}
	var out bytes.Buffer
	for _, l := range strings.Split(string(text), "\n") {
		l = strings.TrimSuffix(l, "\r")
		if len(l) >= 64*1024 {
			return nil, false
		}
		if strings.TrimSpace(l) == "" {
			continue
		}
		o, ok, pv := redactLine(l)
		if pv != nil {
			return nil, false
		}
		if ok {
			out.WriteString(o)
			out.WriteByte('\n')
		}
	}
	return out.Bytes(), true
}

func c16Run(c *Ctx) {
	ns := "shop.orders"
	fsets := []Flags{{}, {N: true, B: true, I: true, W: true}, {R: customReplacement, F: []string{ns}}, {Z: "^email$"}, {I: true, R: "x"}}
	if !c.Thorough() {
		fsets = fsets[:3]
	}
	visit := func(r *atlasRun, o *atlasObs, choices []int) {
		viol := func(sig, what string, extra map[string]any) {
			c.Outcome("mismatch")
			c.Violate("atlas:"+o.Level+":"+sig, fmt.Sprintf("%s level, script {%s}: %s", o.Level, r, what), int64(len(r.Hosts)*100+len(choices)), atlasReplay(r, o, choices, extra), nil)
		}
		if sig, what := checkRequests(r, o); sig != "" {
			viol(sig, what, nil)
			return
		}
		_, _, success, where := r.model()
		if where == "srv" {
			c.Outcome("srv-open")
			return
		}
		if success != (o.Exit == 0) {
			viol("exit-status", fmt.Sprintf("the model says success=%v (%s) but the run ends with status %d: %s", success, where, o.Exit, trunc(o.Stderr, 200)), nil)
			return
		}
		if !success {
			c.Outcome("failure-as-modelled")
			return
		}
		// downloaded bytes stored verbatim (library level: the temp files are read before clean-up)
		if o.Level == "library" {
			for i, h := range r.Hosts {
				if !bytes.Equal(o.TempCopy[i], payloadBytes(h.Payload, h.Name)) {
					viol("temp-file-bytes", fmt.Sprintf("the temp file of host %d does not hold the downloaded bytes verbatim (%d vs %d bytes)", i, len(o.TempCopy[i]), len(payloadBytes(h.Payload, h.Name))), nil)
					return
				}
			}
		}
		// <out>.<i> = redaction of host i's payload; any other file in the output directory must be empty
		// (main() itself creates an empty <out>)
		for n, b := range o.OutFiles {
			known := false
			for i := range r.Hosts {
				if n == fmt.Sprintf("out.log.%d", i) {
					known = true
				}
			}
			if !known && len(b) > 0 {
				viol("unexpected-output-file", fmt.Sprintf("the output directory holds %s (%d bytes) next to the per-host files", n, len(b)), nil)
				return
			}
		}
		for i := range r.Hosts {
			want, _ := expectedOut(r, i)
			got, ok := o.OutFiles[fmt.Sprintf("out.log.%d", i)]
			if !ok {
				viol("output-file-missing", fmt.Sprintf("out.log.%d is missing", i), nil)
				return
			}
			if !bytes.Equal(got, want) {
				// is it another host's log?
				other := -1
				for k := range r.Hosts {
					if w2, _ := expectedOut(r, k); k != i && bytes.Equal(got, w2) {
						other = k
					}
				}
				if other >= 0 {
					viol("output-host-mixup", fmt.Sprintf("out.log.%d holds the redacted log of host %d", i, other), nil)
				} else {
					viol("output-content", fmt.Sprintf("out.log.%d is not the redaction of host %d's payload under flags [%s]: %d vs %d bytes; first difference near %q", i, i, r.Fl, len(got), len(want), trunc(firstDiffCtx(got, want), 120)), nil)
				}
				return
			}
		}
		c.Outcome("success-as-modelled")
		if c.Shard == 0 && len(c.P.Samples) < 4 {
			c.Sample(map[string]any{"script": r.String(), "requests": reqSummary(o.Reqs), "level": o.Level})
		}
	}
	// success side: every request challenged or not, hosts 1..5, payload kinds (processable ones matter), windows
	maxH := 3
	if c.Thorough() {
		maxH = 5
	}
	b := 1
	if c.Thorough() {
		b = 2
	}
	for hn := 0; hn < 2; hn++ {
		atlasExplore(c, atlasGenOpts{MaxHosts: maxH, SuccessOnly: true, HostNames: hn}, b, fsets, true, false, visit)
	}
	// CLI: same tree with fewer hosts at quick
	mh := 2
	if c.Thorough() {
		mh = 4
	}
	atlasExplore(c, atlasGenOpts{MaxHosts: mh, SuccessOnly: true, HostNames: 1, Supplies: c.Thorough()}, b, fsets[:2], false, true, visit)
	// 4 and 5 hosts with cooperative, challenging server only
	atlasExplore(c, atlasGenOpts{MaxHosts: 5, MinHosts: 4, SuccessOnly: true, AlwaysChallenge: true, HostNames: 1}, 1, fsets[:2], true, !c.Thorough(), visit)
	// the full behaviour tree: request log and exit status must follow the model on the failure side as well
	atlasExplore(c, atlasGenOpts{MaxHosts: 3, HostNames: 1}, 1, fsets[:1], true, false, visit)
	atlasExplore(c, atlasGenOpts{MaxHosts: 2, HostNames: 1}, 1, fsets[:1], false, true, visit)
	c16CrashHistories(c, visit)
	// Atlas mode together with --encrypt, key path fresh or holding a valid key: the redaction "under the active flags"
	// of EVERY host's log is the one with the ciphertexts of the key the key file holds after the run (one process
	// redacts several logs here).  The statement leaves open whether this combination is accepted at all (C18): a run
	// refused before any request is not looked at.
	visitY := func(r *atlasRun, o *atlasObs, choices []int) {
		if o.Exit != 0 && len(o.Reqs) == 0 {
			c.Outcome("atlas-with-encrypt-refused")
			return
		}
		key, err := base64.StdEncoding.DecodeString(strings.TrimSpace(string(o.KeyFile)))
		if o.Exit == 0 && (err != nil || len(key) != 64) {
			c.Outcome("mismatch")
			c.Violate("atlas:cli:encrypt:no-usable-key-file", fmt.Sprintf("script {%s}: the run succeeded with --encrypt but the key path holds no 64-byte key afterwards", r), int64(len(r.Hosts)), atlasReplay(r, o, choices, nil), nil)
			return
		}
		r.Fl.Key = key
		visit(r, o, choices)
		r.Fl.Key = nil
	}
	for _, ks := range []int{0, 1} {
		atlasExploreWith(c, atlasGenOpts{MaxHosts: mh + 1, SuccessOnly: true, HostNames: 1}, 0, []Flags{{Y: true}, {Y: true, N: true, W: true, R: customReplacement}}, false, true, visitY, func(r *atlasRun) { r.KeyState = ks })
	}
}

// c16CrashHistories: histories of two runs over one TMPDIR.  Run 1 is killed (SIGKILL: no clean-up code runs)
// when its k-th request arrives, for EVERY k; run 2 asks for the same project, cluster and window and is served
// other (shorter or longer) payloads.  Whatever run 1 left behind, run 2 must behave like a first run: the same
// oracles as for single runs apply to it.
func c16CrashHistories(c *Ctx, visit atlasVisit) {
	base := freshDir(c.Scratch, "crash")
	names := []string{"zeta-02.example.net", "alpha-00.example.net", "midway-01.example.net"}
	kind := func(n string) int {
		for i, k := range payloadKinds {
			if k == n {
				return i
			}
		}
		return 0
	}
	var no int64
	maxH := 2
	if c.Thorough() {
		maxH = 3
	}
	for n := 1; n <= maxH; n++ {
		for _, win := range []bool{true, false} {
			for _, pk := range [][2]string{{"large", "short"}, {"short", "large"}, {"multi-member", "valid"}, {"valid", "valid"}} {
				for k := 1; k <= 2+2*n+1; k++ {
					no++
					if !c.Mine(no) {
						continue
					}
					mk := func(p string, killAt int) *atlasRun {
						r := &atlasRun{Window: win, Cluster: phasePlan{Un: AnsDigest, Au: AnsOK}, KillAt: killAt}
						for i := 0; i < n; i++ {
							r.Hosts = append(r.Hosts, hostPlan{Name: names[i], Port: true, Payload: kind(p), phasePlan: phasePlan{Un: AnsDigest, Au: AnsOK}})
						}
						return r
					}
					dir := freshDir(base, "h")
					r1 := mk(pk[0], k)
					o1, err := execAtlasCLI(c, r1, dir)
					if err != nil {
						c.HarnessError("crash history: %v", err)
						return
					}
					killed := o1.Exit == 128 || o1.Exit == -1
					// run 2 in the SAME sandbox (same TMPDIR, same output directory), nothing cleaned in between
					os.Remove(filepath.Join(dir, "requests.jsonl"))
					r2 := mk(pk[1], 0)
					o2, err := execAtlasCLI(c, r2, dir)
					if err != nil {
						c.HarnessError("crash history: %v", err)
						return
					}
					c.Eval(2)
					c.P.Traces++
					c.P.Transitions += int64(len(o1.Reqs) + len(o2.Reqs))
					c.Count("crash_histories", 1)
					if killed {
						c.Count("crash_histories_run1_killed", 1)
					}
					c.Distinct(fmt.Sprintf("crash|%d|%v|%v|%d", n, win, pk, k))
					o2.Level = "cli"
					r2.Desc = append(r2.Desc, fmt.Sprintf("second run after a run killed at request %d (%d files left in TMPDIR)", k, len(o1.TmpLeft)))
					visit(r2, o2, []int{n, k})
				}
			}
		}
	}
}

func firstDiffCtx(a, b []byte) string {
	n := len(a)
	if len(b) < n {
		n = len(b)
	}
	i := 0
	for i < n && a[i] == b[i] {
		i++
	}
	s := i - 30
	if s < 0 {
		s = 0
	}
	e := i + 60
	if e > len(a) {
		e = len(a)
	}
	return string(a[s:e])
}

// ---------------------------------------------------------------------------------------------- C17

func c17Run(c *Ctx) {
	visit := func(r *atlasRun, o *atlasObs, choices []int) {
		if len(o.TmpLeft) == 0 {
			c.Outcome("tmpdir-empty")
			if c.Shard == 0 && len(c.P.Samples) < 4 && len(choices)%3 == 0 {
				c.Sample(map[string]any{"script": r.String(), "requests": reqSummary(o.Reqs), "level": o.Level, "exit": o.Exit})
			}
			return
		}
		c.Outcome("temp-file-left")
		_, dl, success, where := r.model()
		var names []string
		partial := false
		for n, b := range o.TmpLeft {
			names = append(names, fmt.Sprintf("%s (%d bytes)", n, len(b)))
			full := false
			for _, h := range r.Hosts {
				if bytes.Equal(b, payloadBytes(h.Payload, h.Name)) {
					full = true
				}
			}
			if !full {
				partial = true
			}
		}
		sort.Strings(names)
		stage := "after-success"
		if !success {
			stage = "after-failure-at-" + strings.Fields(where)[0]
		}
		kind := "complete-log"
		if partial {
			kind = "partial-log"
		}
		c.Violate("tempfile:"+o.Level+":"+stage+":"+kind, fmt.Sprintf("%s level, script {%s}: %d downloaded file(s) left in the temporary directory after the run (status %d, %d downloads completed, failing step: %s): %v", o.Level, r, len(o.TmpLeft), o.Exit, dl, where, names),
			int64(len(r.Hosts)*100+len(choices)), atlasReplay(r, o, choices, map[string]any{"left": names}), nil)
	}
	b := 1
	if c.Thorough() {
		b = 2
	}
	atlasExplore(c, atlasGenOpts{MaxHosts: 4, HostNames: 1}, b, []Flags{{}}, true, false, visit)
	mh := 3
	if c.Thorough() {
		mh = 4
	}
	atlasExplore(c, atlasGenOpts{MaxHosts: mh, HostNames: 1}, 1, []Flags{{}}, false, true, visit)
	// the same directory under other spellings of TMPDIR (trailing slash, "/./", "//", through a symbolic link):
	// the full behaviour tree for up to 2 hosts at both levels
	for tf := 1; tf < len(tmpForms); tf++ {
		atlasExplore(c, atlasGenOpts{MaxHosts: 2, HostNames: 1, TmpForm: tf}, b-1, []Flags{{}}, true, false, visit)
		atlasExplore(c, atlasGenOpts{MaxHosts: 2, HostNames: 1, TmpForm: tf}, 0, []Flags{{}}, false, c.Thorough() || tf == 1, visit)
	}
	// Atlas mode together with --encrypt: every state of the key path (fresh, valid, too short, not base64, a directory,
	// parent missing) x the success-side scripts for up to 2 hosts, through the real main().  Whether the job is
	// accepted is C18's business; whatever happens, no raw download may stay behind.
	for ks := range atlasKeyStates {
		atlasExploreWith(c, atlasGenOpts{MaxHosts: 2, HostNames: 1, SuccessOnly: true}, 0, []Flags{{Y: true}}, false, true, visit, func(r *atlasRun) { r.KeyState = ks })
	}
}

// ---------------------------------------------------------------------------------------------- C20

func c20Run(c *Ctx) {
	if findKey(atlasPub+" "+atlasProject) != "" {
		c.HarnessError("the private-key canary occurs in the public parts")
		return
	}
	visit := func(r *atlasRun, o *atlasObs, choices []int) {
		viol := func(sig, what string) {
			c.Outcome("key-exposed")
			c.Violate("privkey:"+o.Level+":"+sig, fmt.Sprintf("%s level, script {%s}: %s", o.Level, r, what), int64(len(r.Hosts)*100+len(choices)), atlasReplay(r, o, choices, nil), nil)
		}
		challenged := false
		clean := true
		for i, q := range o.Reqs {
			var sb strings.Builder
			sb.WriteString(q.Method + " " + q.URL + "\n")
			for k, vs := range q.Header {
				sb.WriteString(k + ": " + strings.Join(vs, ", ") + "\n")
			}
			sb.WriteString(q.Body)
			if f := findKey(sb.String()); f != "" {
				viol("in-request:"+f, fmt.Sprintf("request %d (%s %s, answer to it: %s) carries the private key (%s)", i, q.Kind, q.LogHost, q.Answer, f))
				clean = false
			}
			if q.Auth != "" && !challenged {
				viol("credentials-without-challenge", fmt.Sprintf("request %d carries an Authorization header (%s) although the server has not sent a digest challenge", i, q.Auth))
				clean = false
			}
			if q.Auth != "" && q.Auth != "digest-ok" {
				viol("non-digest-credentials:"+q.Auth, fmt.Sprintf("request %d carries credentials that are not a digest response (%s): %s", i, q.Auth, trunc(strings.Join(q.Header["Authorization"], ","), 80)))
				clean = false
			}
			if isChallenge(q.Answer) || q.Answer == Ans401Offer {
				challenged = true
			} else if q.Auth != "" {
				challenged = false // one challenge, one answer
			}
			if q.Scheme != "https" || q.Host != atlasHost {
				viol("foreign-endpoint", fmt.Sprintf("request %d goes to %s://%s", i, q.Scheme, q.Host))
				clean = false
			}
		}
		for name, text := range map[string]string{"stdout": o.Stdout, "stderr": o.Stderr} {
			if f := findKey(text); f != "" {
				viol("in-"+name+":"+f, fmt.Sprintf("the private key (%s) appears in %s: %s", f, name, trunc(text, 300)))
				clean = false
			}
		}
		for _, set := range []map[string][]byte{o.TmpLeft, o.OutFiles} {
			for n, b := range set {
				if f := findKey(string(b)); f != "" {
					viol("in-file:"+f, fmt.Sprintf("the private key (%s) appears in the file %s", f, n))
					clean = false
				}
			}
		}
		if clean {
			c.Outcome("key-confined")
			if c.Shard == 0 && len(c.P.Samples) < 4 && len(choices)%3 == 0 {
				c.Sample(map[string]any{"script": r.String(), "requests": reqSummary(o.Reqs), "level": o.Level, "exit": o.Exit})
			}
		}
	}
	b := 1
	if c.Thorough() {
		b = 2
	}
	atlasExplore(c, atlasGenOpts{MaxHosts: 3, HostNames: 0}, b, []Flags{{}}, true, false, visit)
	mh := 2
	if c.Thorough() {
		mh = 3
	}
	atlasExplore(c, atlasGenOpts{MaxHosts: mh, HostNames: 0, Supplies: true}, 1, []Flags{{}}, false, true, visit)
	c20UsageRuns(c)
	// child environment / argv files are not artefacts of the run; the sandbox directory of the last
	// run is scanned once more as a whole (cwd, HOME) for anything that is not the harness' own script
	_ = os.Remove(filepath.Join(c.Scratch, "atlas", "run", "script.json"))
	for n, bts := range listFiles(filepath.Join(c.Scratch, "atlas", "run")) {
		if strings.HasPrefix(n, "requests.jsonl") {
			continue
		}
		if f := findKey(string(bts)); f != "" {
			c.Violate("privkey:cli:in-sandbox-file:"+f, fmt.Sprintf("the private key (%s) appears in %s in the sandbox of a run", f, n), 0, map[string]any{"kind": "sandbox-scan", "file": n}, nil)
		}
	}
}

// c20UsageRuns: runs that end in a usage message or an argument error, for every way of supplying the key pair.
// Help texts, flag defaults and "invalid argument" messages are produced by the flag library from what the program
// registered; the private key must not be in any of them.
func c20UsageRuns(c *Ctx) {
	if c.Shard != 0 {
		return
	}
	dir := freshDir(c.Scratch, "usage")
	os.WriteFile(filepath.Join(dir, "in.log"), []byte(c06Alphabet()[0].Text+"\n"), 0o644)
	atlas := []string{"--atlasProjectId", atlasProject, "--atlasClusterName", atlasCluster, "--outputFile", "out.log"}
	tails := [][]string{
		{"--help"}, {"-h"}, {"--nosuchflag"}, {"--atlasLogStartDate", "not-a-number", "--atlasLogEndDate", "5"}, {"--atlasLogStartDate"},
		{"--atlasLogStartDate", "5"}, {"extra1", "extra2"}, {"in.log"}, {"--redactFieldsRegexp", "(", "--redactFieldNames", "a.b"}, {"--encrypt"}, {"--outputFile"},
	}
	tops := [][]string{{"--help"}, {"help", "redact"}, {"help"}, {"nosuchcommand"}, {"redact", "--help"}, {"decrypt", "--help"}, {"decrypt"}, {"completion", "bash"}, {"--version"}, {"version"}, {}}
	for supply := 0; supply < 4; supply++ {
		var keyArgs, env []string
		if supply == 0 || supply == 2 {
			keyArgs = append(keyArgs, "--atlasPublicKey", atlasPub)
		} else {
			env = append(env, "ATLAS_PUBLIC_KEY="+atlasPub)
		}
		if supply == 0 || supply == 3 {
			keyArgs = append(keyArgs, "--atlasPrivateKey", atlasPriv)
		} else {
			env = append(env, "ATLAS_PRIVATE_KEY="+atlasPriv)
		}
		env = append(env, "VERIF_MODE=child-cli") // no script: the transport refuses everything
		var runs [][]string
		for _, t := range tails {
			runs = append(runs, append(append(append([]string{"redact"}, atlas...), keyArgs...), t...))
			runs = append(runs, append(append([]string{"redact"}, keyArgs...), t...))
		}
		if supply == 1 {
			runs = append(runs, tops...) // keys only in the environment: any command at all
		}
		for _, args := range runs {
			res, err := runCLI(CLIRun{Bin: c.Self, Args: args, Dir: dir, Env: env})
			if err != nil {
				c.HarnessError("usage run: %v", err)
				return
			}
			c.Eval(1)
			c.Count("usage_runs", 1)
			c.Distinct(fmt.Sprintf("usage|%d|%v", supply, args))
			for name, text := range map[string]string{"stdout": string(res.Stdout), "stderr": string(res.Stderr)} {
				// the key given ON the command line may be echoed by an error about that very argument list only if
				// the program prints its argv; neither cobra nor the program does, so no exception is made
				if f := findKey(text); f != "" {
					c.Violate("privkey:cli:usage:in-"+name+":"+f, fmt.Sprintf("key supply %d, arguments %v (exit %d): the private key (%s) appears in %s: %s", supply, args, res.Exit, f, name, trunc(text[strings.Index(text, keyForms()[f])-min(200, strings.Index(text, keyForms()[f])):], 400)), int64(len(args)),
						map[string]any{"kind": "usage-run", "args": args, "key_supply": supply}, nil)
				}
			}
		}
	}
}

func atlasPost(c *Ctx, m *Part) {}

func init() {
	tree := "the tree of distinguishable server behaviours, generated lazily by the explorer: for the cluster lookup and then for each host in order, the answer to the unauthenticated request {digest challenge, 200 without challenge, Basic challenge, 401 without header, 403, 404, 500 echoing the request headers, connection reset, malformed digest challenge} and, after a challenge, the answer to the authenticated request {200, 401, 403, 404, 500-echo, connection reset, 200 with the body cut after 0 / 1 / half / all-but-one bytes}; as deviations, a 401 that offers a second challenge (Digest then Basic, Basic then Digest; after a digest response: a fresh Digest plus Basic, or Basic only); the model says no request follows a failing one, so what a REPEATED request gets {same answer, cooperative flow, 500-echo, connection reset, 404, Basic challenge} is enumerated on demand, exactly for the executions in which the client does ask again"
	register(&PropDef{
		ID: "C16", Level: "model_checking",
		Rule:        "success side of " + tree + " (every request challenged or not) x 1..5 hosts (two name sets, one whose order differs from sorted order) x ports {all, none, mixed} x window flags {none, both} x payload kinds {valid, gzip of nothing, multi-member, 1500 lines, zero bytes, not gzip, over-long line, blank/garbage lines, compressed bytes without 0x0A, members split inside a line, one line} as deviations (quick <=1, thorough <=2) x redaction flag sets, at the library level (DownloadClusterLogs + ProcessMongoLogFile + DeleteClusterLogs as main() calls them) and through the real main() in a child process; plus the full tree with faults (<=1 deviation) for 3 / 2 hosts; plus crash histories through the CLI: run 1 killed (SIGKILL) at EVERY request index, run 2 over the same TMPDIR, window and output directory with other payloads must behave like a first run. Reference model (DESIGN.md 2.9): exact request sequence (one cluster GET, then per host in connection-string order one download, each preceded at most by its challenge round), all to https://cloud.mongodb.com, project / cluster / host in the path, startDate / endDate equal to the flags or [now-7d, now]; every Authorization header must be a digest response that verifies against the key pair; exit status class; temp files hold the payload bytes verbatim; <out>.<i> equals the redaction of payload i under the flags - computed without the tool's reader: harness-side decompression of all members, line split, one-line redactions - and nothing else is in the output directory. states = scripts, transitions = requests, every script executed on the implementation",
		Assumptions: []string{"SRV connection strings need DNS: only 'no credential leaves, nothing foreign is contacted' is checked for them", "net/http, TLS and sockets below http.DefaultTransport are trusted", "the redaction flags reach the child through the argv wiring that C01's CLI pass ties to the in-process setters"},
		Run:         c16Run, Post: atlasPost,
	})
	register(&PropDef{
		ID: "C17", Level: "fault_enumeration",
		Rule:        tree + " x 1..4 hosts x cluster description kinds {standard, SRV, not JSON, no connection string, malformed string} x payload kinds x output faults {<out>.<k> is a directory for each k, output directory missing} as deviations (quick <=1, thorough <=2), at the library level and (<=1 deviation, 3 / 4 hosts) through the real main() in a child process with its own TMPDIR; the full tree for up to 2 hosts again with TMPDIR spelled with a trailing slash, a dot segment, a double slash and through a symbolic link. Oracle: after the function returns / the process exits, TMPDIR holds no file - on success and on every failure. distinct = distinct scripts",
		Assumptions: []string{"TMPDIR is the only place downloads are stored (os.CreateTemp with the default directory)"},
		Run:         c17Run,
	})
	register(&PropDef{
		ID: "C20", Level: "fault_enumeration",
		Rule:        tree + " x 1..3 hosts x deviations (cluster description kinds, payload kinds, output faults) x ways of supplying the key pair {both flags, both environment, public flag + private environment, public environment + private flag, both flags spelled --flag=value, public environment + private --flag=value}, at the library level and through the real main() in a child process; plus ~100 runs that end in a usage text or an argument error (help, unknown flag, malformed / missing values, extra arguments, other sub-commands) for every way of supplying the key pair. Oracle: the private-key canary (characters that change under URL-, base64- and JSON-encoding) in the forms verbatim / URL-encoded / path-escaped / base64 / base64url / base64(public:private) / JSON-escaped occurs in no request line, header or body, not in stdout, stderr, output files, files left in TMPDIR or the sandbox; no Authorization header is sent before a digest challenge was received, every Authorization header is a digest response, every request goes to https://cloud.mongodb.com. distinct = distinct scripts",
		Assumptions: []string{"HTTP redirects and proxies are not among the scripted behaviours", "the digest response itself (an MD5 over the key) is the sanctioned use"},
		Run:         c20Run,
	})
}
