//go:build verif

package main

// C19 — redacted output is a fixed point of redaction: redact(redact(x)) == redact(x) as bytes,
// under value-redaction flags (no namespace / field-name pseudonymisation, replacement not
// e-mail-shaped).  In-process per line over G and T, and through the real CLI over corpus files
// (output file of pass 1 is the input file of pass 2).

import (
	"encoding/base64"
	"fmt"
	"os"
	"path/filepath"
	"strings"
)

// jdiff returns the path and a description of the first difference between two parsed trees.
func jdiff(a, b *JNode, path []string) (string, string) {
	if a.Kind != b.Kind {
		return strings.Join(path, "."), a.Kind.String() + "→" + b.Kind.String()
	}
	switch a.Kind {
	case JBool:
		if a.Bool != b.Bool {
			return strings.Join(path, "."), "bool-changed"
		}
	case JNum:
		if a.Num != b.Num {
			return strings.Join(path, "."), "number-literal-changed"
		}
	case JStr:
		if a.Str != b.Str {
			return strings.Join(path, "."), "string-changed"
		}
	case JArr:
		if len(a.Kids) != len(b.Kids) {
			return strings.Join(path, "."), "array-length-changed"
		}
		for i := range a.Kids {
			if p, d := jdiff(a.Kids[i], b.Kids[i], append(path, "[]")); d != "" {
				return p, d
			}
		}
	case JObj:
		if len(a.Kids) != len(b.Kids) {
			return strings.Join(path, "."), "member-count-changed"
		}
		for i := range a.Kids {
			if a.Keys[i] != b.Keys[i] {
				return strings.Join(append(path, a.Keys[i]), "."), "key-changed"
			}
			if p, d := jdiff(a.Kids[i], b.Kids[i], append(path, a.Keys[i])); d != "" {
				return p, d
			}
		}
	}
	return "", ""
}

// c19Flags: products of N,B,I with a replacement alphabet (never e-mail-shaped).
func c19Flags(thorough bool) []Flags {
	reps := []Flags{{}, {R: customReplacement}, {R: "x"}, {REmpty: true}}
	if thorough {
		reps = append(reps, Flags{R: "2024-01-01T00:00:00Z"}, Flags{R: "000000000000000000000000"}, Flags{R: "$ref"}, Flags{R: "12345"}, Flags{R: "true"}, Flags{R: "null"})
	}
	var out []Flags
	for _, r := range reps {
		for m := 0; m < 8; m++ {
			f := r
			f.N, f.B, f.I = m&1 != 0, m&2 != 0, m&4 != 0
			out = append(out, f)
		}
	}
	return out
}

// c19Eval: ("", "") when the line is a fixed point after one pass.
func c19Eval(line string) (sig, detail, out1, out2 string, skip bool) {
	o1, ok1, pv1 := redactLine(line)
	if pv1 != nil || !ok1 {
		return "", "", "", "", true
	}
	o2, ok2, pv2 := redactLine(o1)
	if pv2 != nil {
		return "second-pass-panics", fmt.Sprint(pv2), o1, "", false
	}
	if !ok2 {
		return "second-pass-rejects", "the first-pass output is rejected by the second pass", o1, "", false
	}
	if o1 == o2 {
		return "", "", o1, o2, false
	}
	a, e1 := ParseJSON([]byte(o1))
	b, e2 := ParseJSON([]byte(o2))
	if e1 != nil || e2 != nil {
		return "unparsable", "an output does not parse", o1, o2, false
	}
	p, d := jdiff(a, b, nil)
	if d == "" {
		return "bytes-only", "the two passes differ in bytes but not as trees (serialisation is not canonical)", o1, o2, false
	}
	p = strings.ReplaceAll(p, ".[]", "[]")
	return coarseLoc(p) + ":" + d, "pass 2 differs from pass 1 at " + p + ": " + d, o1, o2, false
}

// c19Collisions: files in which one text occurs in two class contexts (collisionGroups of C05: every ordered pair of
// contexts x placements x same / different field names x short and long texts), through the real CLI in separate
// processes: pass 2 over the output file of pass 1 must reproduce it.  A placeholder chosen by what a text was seen
// as earlier in the run is not what the next run - which sees the placeholder, not the text - chooses.
func c19Collisions(c *Ctx) {
	dir := freshDir(c.Scratch, "c19coll")
	var lines []string
	var no int64
	collisionGroups(func(desc string, cases []*sweepCase) {
		no++
		if !c.Mine(no) {
			return
		}
		for _, sc := range cases {
			lines = append(lines, sc.Line)
		}
		c.Distinct("collision-group|" + cases[0].Line)
	})
	if len(lines) == 0 {
		return
	}
	in := filepath.Join(dir, "in.log")
	os.WriteFile(in, []byte(strings.Join(lines, "\n")+"\n"), 0o644)
	for _, fl := range []Flags{{}, {N: true, B: true, I: true, R: "<x>"}} {
		o1, o2 := filepath.Join(dir, "pass1.log"), filepath.Join(dir, "pass2.log")
		r1, err1 := runCLI(CLIRun{Bin: c.CLI, Args: append([]string{"redact", in, "--outputFile", o1}, fl.CLIArgs("")...), Dir: dir})
		r2, err2 := runCLI(CLIRun{Bin: c.CLI, Args: append([]string{"redact", o1, "--outputFile", o2}, fl.CLIArgs("")...), Dir: dir})
		c.Eval(2)
		c.Count("cli_runs", 2)
		if err1 != nil || err2 != nil || r1.Exit != 0 || r2.Exit != 0 {
			c.Violate("refix-collisions:run-fails", fmt.Sprintf("flags [%s]: pass 1 exits %d, pass 2 exits %d: %s", fl, r1.Exit, r2.Exit, trunc(string(r1.Stderr)+string(r2.Stderr), 300)), 0, map[string]any{"kind": "c19-collisions", "flags": fl.String()}, nil)
			continue
		}
		b1, _ := os.ReadFile(o1)
		b2, _ := os.ReadFile(o2)
		if string(b1) == string(b2) {
			c.Outcome("fixed-point")
			continue
		}
		l1, l2 := strings.Split(string(b1), "\n"), strings.Split(string(b2), "\n")
		k := 0
		for k < len(l1) && k < len(l2) && l1[k] == l2[k] {
			k++
		}
		a, b, inl := "", "", ""
		if k < len(l1) {
			a = l1[k]
		}
		if k < len(l2) {
			b = l2[k]
		}
		if k < len(lines) {
			inl = lines[k]
		}
		c.Violate("refix-collisions:differs", fmt.Sprintf("flags [%s]: a file in which texts occur in two class contexts is not a fixed point: line %d of pass 2 differs from pass 1; input line: %s | pass 1: %s | pass 2: %s", fl, k+1, trunc(inl, 400), trunc(a, 400), trunc(b, 400)), int64(k),
			map[string]any{"kind": "c19-collisions", "flags": fl.String(), "input": inl, "pass1": a, "pass2": b}, nil)
	}
}

func c19Run(c *Ctx) {
	fs := c19Flags(c.Thorough())
	var corpus []string
	layers := []sweepLayer{
		{"L0", GenOpts{LeafSet: 0, AllGates: true}, 0, nil},
		{"L1", GenOpts{OneGate: true, LeafSet: 1}, 1, nil},
	}
	if c.Thorough() {
		layers = append(layers, sweepLayer{"L2", GenOpts{OneGate: true, LeafSet: 2}, 2, nil})
	}
	layers = append(layers, sweepLayer{"scale", GenOpts{Scale: true, ScaleThorough: c.Thorough()}, 0, nil})
	check := func(line, desc string, rank int64, replay map[string]any, fsets []Flags) {
		for _, fl := range fsets {
			fl.Apply()
			sig, detail, o1, o2, skip := c19Eval(line)
			c.Eval(2)
			if skip {
				c.Count("skipped_rejected_or_panicking", 1)
				continue
			}
			if sig == "" {
				c.Outcome("fixed-point")
				continue
			}
			c.Outcome("differs")
			fl := fl
			rp := map[string]any{}
			for k, v := range replay {
				rp[k] = v
			}
			rp["flags"], rp["input"], rp["pass1"], rp["pass2"] = fl.String(), line, o1, o2
			c.Violate("refix:"+sig, fmt.Sprintf("%s; %s; flags [%s]; pass 1: %s | pass 2: %s", detail, desc, fl, trunc(o1, 400), trunc(o2, 400)), rank, rp,
				func() bool { fl.Apply(); s, _, _, _, _ := c19Eval(line); return s != "" })
		}
	}
	// already redacted lines of every length are reproduced by the real line reader; lines that grow in pass 1
	streamLenSweep(c, "C19", []string{"fixed-point", "array-pad"}, Flags{})
	c19Collisions(c)
	sweep(c, layers, func(sc *sweepCase) bool {
		if sc.C.Root.HasDup() {
			return false
		}
		c.Distinct(sc.Line)
		if sc.Layer == "L0" && (c.Thorough() || sc.C.Container == 0) {
			corpus = append(corpus, sc.Line)
		}
		fsets := fs
		if sc.Layer == "L2" || (sc.Layer == "L1" && !c.Thorough()) {
			fsets = fs[:16]
		}
		check(sc.Line, "slot "+sc.C.SlotName, int64(len(sc.Line)), replayOf(sc, Flags{}, nil), fsets)
		if c.P.Evaluations < 200 {
			c.Sample(map[string]any{"slot": sc.C.SlotName, "line": trunc(sc.Line, 700)})
		}
		return false
	}, nil)
	// --- T
	paths, _ := vocabPaths(c.Src)
	vals := tValues()
	places := tPlacements()
	var cur struct {
		root *LNode
		desc string
	}
	tf := []Flags{{N: true, B: true, I: true, R: customReplacement}}
	if c.Thorough() {
		tf = fs[:32]
	}
	var tcorpus []string
	st := Explore(func(x *X) {
		l, _, _, d := genT(x, paths, vals, places)
		cur.root, cur.desc = l, d
	}, ExploreOpts{Bound: -1, ShardDepth: 2, Shard: c.Shard, NShards: c.NShards}, func(x *X) {
		if cur.root.HasDup() {
			return
		}
		line := cur.root.JSON()
		c.Distinct(line)
		if len(tcorpus) < 4000 {
			tcorpus = append(tcorpus, line)
		}
		check(line, "tree "+cur.desc, int64(len(line)), map[string]any{"kind": "redact-T", "choices": x.Trace(), "desc": cur.desc}, tf)
	})
	c.Count("T_trees", st.Executions)
	Flags{}.Apply()
	// --- lines close to the reader's line limit: pass 1 replaces short literals by longer placeholders, so its
	// output line can exceed what pass 2 is able to read
	if c.Shard == 0 {
		for _, n := range []int{1000, 6000, 8000} {
			var sb strings.Builder
			sb.WriteString(`{"t":{"$date":"2024-05-01T10:00:00.123+00:00"},"s":"I","c":"COMMAND","id":51803,"ctx":"conn1","msg":"Slow query","attr":{"ns":"d.c","command":{"find":"c","filter":{"f":{"$in":[`)
			for i := 0; i < n; i++ {
				if i > 0 {
					sb.WriteByte(',')
				}
				sb.WriteString(`"ab"`)
			}
			sb.WriteString(`]}},"$db":"d"}}}`)
			line := sb.String()
			Flags{}.Apply()
			var o1, o2 strings.Builder
			e1 := ProcessMongoLogFileFromReader(strings.NewReader(line+"\n"), &o1, nil)
			c.Eval(1)
			c.Distinct(line)
			if e1 != nil {
				continue // the input itself is over the limit
			}
			e2 := ProcessMongoLogFileFromReader(strings.NewReader(o1.String()), &o2, nil)
			c.Eval(1)
			if e2 != nil || o2.String() != o1.String() {
				c.Outcome("differs")
				c.Violate("refix-stream:line-grows-past-reader-limit", fmt.Sprintf("an input line of %d bytes (within the reader's limit) is redacted to a line of %d bytes; feeding that output back fails: %v (%d bytes emitted)", len(line), o1.Len()-1, e2, o2.Len()), int64(n),
					map[string]any{"kind": "near-limit-line", "elements": n, "input_bytes": len(line), "pass1_bytes": o1.Len()}, nil)
			} else {
				c.Outcome("fixed-point")
			}
		}
	}
	// --- the real CLI, file in → file out → file in again (each worker its own share of the flag sets)
	c19CLI(c, "G", corpus, fs)
	c19CLI(c, "T", tcorpus, tf)
}

func c19CLI(c *Ctx, name string, lines []string, fsets []Flags) {
	if len(lines) == 0 {
		return
	}
	dir := freshDir(c.Scratch, "c19_"+name)
	in := filepath.Join(dir, "in.log")
	os.WriteFile(in, []byte(strings.Join(lines, "\n")+"\n"), 0o644)
	for fi, fl := range fsets {
		if c.NShards > 1 && fi%4 != c.Shard%4 {
			continue // four groups of workers share the flag sets; every worker has its own slice of the corpus
		}
		o1, o2 := filepath.Join(dir, "pass1.log"), filepath.Join(dir, "pass2.log")
		// the state a working directory is in after earlier use: longer files at both output paths and a valid key
		// file at the default key location (neither pass asks for encryption)
		stale := []byte(strings.Repeat("{\"stale\":\"line of an earlier run\"}\n", (4*len(strings.Join(lines, ""))+400000)/40))
		os.WriteFile(o1, stale, 0o644)
		os.WriteFile(o2, stale, 0o644)
		os.WriteFile(filepath.Join(dir, "anonymongo.enc.key"), []byte(base64.StdEncoding.EncodeToString(harnessKey)), 0o600)
		args := append([]string{"redact", in, "--outputFile", o1}, fl.CLIArgs("")...)
		r1, err := runCLI(CLIRun{Bin: c.CLI, Args: args, Dir: dir})
		if err != nil {
			c.HarnessError("C19 CLI: %v", err)
			return
		}
		args2 := append([]string{"redact", o1, "--outputFile", o2}, fl.CLIArgs("")...)
		r2, err := runCLI(CLIRun{Bin: c.CLI, Args: args2, Dir: dir})
		if err != nil {
			c.HarnessError("C19 CLI: %v", err)
			return
		}
		c.Count("cli_runs", 2)
		b1, _ := os.ReadFile(o1)
		b2, _ := os.ReadFile(o2)
		c.Eval(int64(strings.Count(string(b1), "\n")))
		if r1.Exit != 0 || r2.Exit != 0 {
			c.Violate("refix-cli:exit", fmt.Sprintf("a CLI pass over the %s corpus exits %d / %d under flags [%s]: %s", name, r1.Exit, r2.Exit, fl, trunc(string(r1.Stderr)+string(r2.Stderr), 300)), 0,
				map[string]any{"kind": "cli-two-pass", "flags": fl.String(), "args": args}, nil)
			continue
		}
		if len(b1) == 0 {
			c.HarnessError("C19 CLI: empty first-pass output for the %s corpus", name)
			return
		}
		if string(b1) == string(b2) {
			c.Outcome("cli-fixed-point")
			continue
		}
		l1, l2 := strings.Split(string(b1), "\n"), strings.Split(string(b2), "\n")
		what := fmt.Sprintf("pass 1 has %d lines, pass 2 has %d", len(l1)-1, len(l2)-1)
		for i := range l1 {
			if i >= len(l2) || l1[i] != l2[i] {
				other := ""
				if i < len(l2) {
					other = l2[i]
				}
				what = fmt.Sprintf("line %d: pass 1 %s | pass 2 %s", i+1, trunc(l1[i], 300), trunc(other, 300))
				break
			}
		}
		c.Outcome("cli-differs")
		c.Violate("refix-cli:differs", fmt.Sprintf("feeding the CLI's output file back through the CLI changes it (%s corpus, flags [%s]): %s", name, fl, what), 0,
			map[string]any{"kind": "cli-two-pass", "flags": fl.String(), "args": args}, nil)
	}
}

func init() {
	register(&PropDef{
		ID: "C19", Level: "exploration",
		Rule:        "every line of G at <=1 non-default production (thorough <=2; all 6 gates and 6 containers at 0 deviations) and every tree of T (vocabulary path x 53 value kinds x 5 shapes x 10 placements) is redacted twice in-process under the product of N,B,I with a replacement alphabet (default, quotes/backslash/non-ASCII, 'x', empty; thorough also date-, oid-, number-, boolean-, null- and '$'-looking texts; never e-mail-shaped); oracle = pass 2 output == pass 1 output as bytes; plus the real CLI run twice (output file of pass 1 = input file of pass 2) over corpus files of the 0-deviation lines and of 4000 T trees per worker, for every flag set. distinct = distinct input lines" + scaleRule + streamLenRule + "; collision groups of C05 as files through the CLI (pass 2 over the output file of pass 1, separate processes)",
		Assumptions: []string{"--redactNamespaces, --redactFieldNames, --encrypt and selective mode are outside the property", "lines the first pass rejects or panics on are skipped (C07's concern)"},
		Run:         c19Run,
	})
}
