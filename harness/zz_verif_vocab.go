//go:build verif

package main

// T — vocabulary-path trees (DESIGN.md 2.4): arbitrary JSON trees over the complete operator
// vocabulary mixed with user field names, with every value kind at the end of every path, placed in
// every kind of slot.  Used by C03 (shape), C04 (identity outside zones), C07 (crash freedom), C19.

import (
	"sort"
	"strings"
)

// vocabPaths returns the snapshot paths unioned with names scraped from the current sources (a
// scraped name the snapshot does not know is tried at top level and under every depth-1 parent).
func vocabPaths(src string) (paths [][]string, drift []string) {
	known := map[string]bool{}
	seen := map[string]bool{}
	for _, p := range vocabSnapshot {
		seen[p] = true
		parts := strings.Split(p, "/")
		paths = append(paths, parts)
		for _, s := range parts {
			known[s] = true
		}
	}
	var tops []string
	for _, p := range vocabSnapshot {
		if !strings.Contains(p, "/") {
			tops = append(tops, p)
		}
	}
	scr := scrapeVocab(src)
	var names []string
	for n := range scr {
		if !known[n] {
			names = append(names, n)
		}
	}
	sort.Strings(names)
	for _, n := range names {
		drift = append(drift, n)
		paths = append(paths, []string{n})
		for _, t := range tops {
			if !seen[t+"/"+n] {
				paths = append(paths, []string{t, n})
			}
		}
	}
	return paths, drift
}

type tValue struct {
	name string
	mk   func() *LNode
}

func tValues() []tValue {
	s := func() *LNode { return LS("s") }
	vals := []tValue{
		{"null", func() *LNode { return LNul() }},
		{"true", func() *LNode { return LB(true) }},
		{"0", func() *LNode { return LN("0") }},
		{"bigint", func() *LNode { return LN("7469113720208097282") }},
		{"exp", func() *LNode { return LN("1.50e+3") }},
		{"empty-string", func() *LNode { return LS("") }},
		{"string", s},
		{"dollar-string", func() *LNode { return LS("$s") }},
		{"email", func() *LNode { return LS("a@b.co") }},
		{"[]", func() *LNode { return LA() }},
		{"{}", func() *LNode { return LO() }},
		{"[null]", func() *LNode { return LA(LNul()) }},
		{"[[]]", func() *LNode { return LA(LA()) }},
		{"[{}]", func() *LNode { return LA(LO()) }},
		{"[[{k:s}]]", func() *LNode { return LA(LA(LO("k", s()))) }},
		// several documents / arrays side by side inside an inner array, each with another encoding
		{"[[{k:s},{k:s,j:1}]]", func() *LNode { return LA(LA(LO("k", s()), LO("k", LS("t"), "j", LN("1")))) }},
		{"[[s,{k:s}],[{j:1},{i:[{k:s},{h:2}]}]]", func() *LNode {
			return LA(LA(s(), LO("k", s())), LA(LO("j", LN("1")), LO("i", LA(LO("k", s()), LO("h", LN("2"))))))
		}},
		// the same text as values of different JSON types side by side (anything keyed by the printed value confuses them)
		{"[\"90210\",90210,\"true\",true,\"null\",null,\"0\",0,\"1.50e+3\",1.50e+3]", func() *LNode {
			return LA(LS("90210"), LN("90210"), LS("true"), LB(true), LS("null"), LNul(), LS("0"), LN("0"), LS("1.50e+3"), LN("1.50e+3"))
		}},
		{"[90210,\"90210\",true,\"true\",null,\"null\"]", func() *LNode {
			return LA(LN("90210"), LS("90210"), LB(true), LS("true"), LNul(), LS("null"))
		}},
		{"[s,$s]", func() *LNode { return LA(s(), LS("$s")) }},
		{"[1,[2,[3]]]", func() *LNode { return LA(LN("1"), LA(LN("2"), LA(LN("3")))) }},
		{"{k:s}", func() *LNode { return LO("k", s()) }},
		{"{k:null}", func() *LNode { return LO("k", LNul()) }},
		{"{k:[],j:{}}", func() *LNode { return LO("k", LA(), "j", LO()) }},
	}
	wrapInner := []tValue{
		{"str", func() *LNode { return LS("2024-01-01T00:00:00Z") }},
		{"num", func() *LNode { return LN("1700000000000") }},
		{"null", func() *LNode { return LNul() }},
		{"bool", func() *LNode { return LB(false) }},
		{"arr", func() *LNode { return LA(LS("x")) }},
		{"doc", func() *LNode { return LO("$numberLong", LS("1700000000000")) }},
	}
	for _, w := range []string{"$date", "$oid"} {
		for _, in := range wrapInner {
			w, in := w, in
			vals = append(vals, tValue{"{" + w + ":" + in.name + "}", func() *LNode { return LO(w, in.mk()) }})
		}
	}
	for _, in := range wrapInner {
		in := in
		vals = append(vals, tValue{"{$binary:{base64:" + in.name + "}}", func() *LNode { return LO("$binary", LO("base64", in.mk(), "subType", LS("04"))) }})
		vals = append(vals, tValue{"{$binary:{subType:" + in.name + "}}", func() *LNode { return LO("$binary", LO("base64", LS("AAAA"), "subType", in.mk())) }})
		vals = append(vals, tValue{"{$binary:" + in.name + "}", func() *LNode { return LO("$binary", in.mk()) }})
	}
	return vals
}

func nest(path []string, v *LNode) *LNode {
	n := v
	for i := len(path) - 1; i >= 0; i-- {
		n = LO(path[i], n)
	}
	return n
}

// tShapes builds the tree shapes for one path and value.
func tShapes(x *X, path []string, v func() *LNode) *LNode {
	switch x.Free(6, "tree shape") {
	case 5:
		// keys holding control characters, quotes and non-ASCII around the path
		return LO("ta\tb\u0001", nest(path, v()), "q\"uo\\te é日", LS("x"))
	case 0:
		return nest(path, v())
	case 1:
		return LO("fld", nest(path, v()))
	case 2:
		return nest(path, LO("fld", v()))
	case 3:
		if len(path) < 2 {
			return nest(path, LA(v(), v()))
		}
		return LO(path[0], LA(nest(path[1:], v())))
	default:
		return nest(path, v()).Add("other", LS("sibling"))
	}
}

type tPlacement struct {
	name   string
	inZone bool
	build  func(tree *LNode) *LNode
}

func tEnvelope(c, msg string, attr *LNode) *LNode {
	return LO("t", LO("$date", LS("2024-05-01T10:00:00.123+00:00")), "s", LS("I"), "c", LS(c), "id", LN("51803"), "ctx", LS("conn9"), "msg", LS(msg), "attr", attr)
}

func tPlacements() []tPlacement {
	cmdLine := func(cmd *LNode) *LNode {
		return tEnvelope("COMMAND", "Slow query", LO("type", LS("command"), "ns", LS("db1.c1"), "command", cmd, "durationMillis", LN("7")))
	}
	return []tPlacement{
		{"find.filter", true, func(t *LNode) *LNode { return cmdLine(LO("find", LS("c1"), "filter", t, "$db", LS("db1"))) }},
		{"update.u", true, func(t *LNode) *LNode {
			return cmdLine(LO("update", LS("c1"), "updates", LA(LO("q", LO("a", LN("1")), "u", t)), "$db", LS("db1")))
		}},
		{"aggregate.pipeline", true, func(t *LNode) *LNode {
			return cmdLine(LO("aggregate", LS("c1"), "pipeline", LA(t), "cursor", LO(), "$db", LS("db1")))
		}},
		{"insert.documents", true, func(t *LNode) *LNode { return cmdLine(LO("insert", LS("c1"), "documents", LA(t), "$db", LS("db1"))) }},
		{"find.sort", true, func(t *LNode) *LNode {
			return cmdLine(LO("find", LS("c1"), "filter", LO(), "sort", t, "$db", LS("db1")))
		}},
		{"originatingCommand.pipeline", true, func(t *LNode) *LNode {
			return tEnvelope("COMMAND", "Slow query", LO("ns", LS("db1.c1"), "command", LO("getMore", LN("5"), "collection", LS("c1")), "originatingCommand", LO("aggregate", LS("c1"), "pipeline", LA(t))))
		}},
		{"cmd.query", true, func(t *LNode) *LNode {
			return tEnvelope("QUERY", "Plan executor error", LO("error", LS("e"), "cmd", LO("count", LS("c1"), "query", t)))
		}},
		{"attr.extra", false, func(t *LNode) *LNode {
			return tEnvelope("COMMAND", "Slow query", LO("type", LS("command"), "ns", LS("db1.c1"), "extra", t, "command", LO("find", LS("c1"), "filter", LO("a", LN("1")))))
		}},
		{"command.other-member", false, func(t *LNode) *LNode {
			return cmdLine(LO("find", LS("c1"), "filter", LO("a", LN("1")), "readConcern", t, "$db", LS("db1")))
		}},
		{"other-component", false, func(t *LNode) *LNode {
			return tEnvelope("STORAGE", "WiredTiger message", LO("message", t, "command", LO("find", LS("c1"), "filter", t)))
		}},
	}
}

// genT is the explorer body for T: returns the line tree, the subtree placed, and whether the
// subtree sits inside a redaction zone.
func genT(x *X, paths [][]string, vals []tValue, places []tPlacement) (line *LNode, tree *LNode, pl tPlacement, desc string) {
	pi := x.Free(len(paths), "vocabulary path")
	vi := x.Free(len(vals), "value kind")
	tree = tShapes(x, paths[pi], vals[vi].mk)
	pl = places[x.Free(len(places), "placement")]
	line = pl.build(tree)
	desc = strings.Join(paths[pi], "/") + " = " + vals[vi].name + " @ " + pl.name
	return
}
