//go:build verif

package main

// C06 — a log is processed as an order-preserving, line-local map.
// State space: the trie of line sequences over a small alphabet (states = prefixes, transitions =
// appended lines); every sequence is executed on the real stream code and compared with the
// concatenation of the one-line runs (homomorphism), across all channels.

import (
	"bytes"
	"compress/gzip"
	"fmt"
	"io"
	"os"
	"path/filepath"
	"strings"
	"time"

	"github.com/schollz/progressbar/v3"
)

type c06Sym struct {
	Name  string
	Text  string
	Class string // "object" (exactly one output line), "nothing" (no output), "open" (borderline: taken as it is)
}

func c06Alphabet() []c06Sym {
	return []c06Sym{
		{"A", `{"t":{"$date":"2024-05-01T10:00:00.123+00:00"},"s":"I","c":"COMMAND","id":51803,"ctx":"conn7","msg":"Slow query","attr":{"type":"command","ns":"shop.orders","command":{"find":"orders","filter":{"email":"alice@example.com","n":{"$gt":41}},"$db":"shop"},"planSummary":"IXSCAN { email: 1 }","durationMillis":7469113720208097282}}`, "object"},
		{"B", `{"t":{"$date":"2024-05-01T10:00:01.000+00:00"},"s":"I","c":"COMMAND","id":51803,"ctx":"conn8","msg":"Slow query","attr":{"type":"command","ns":"crm.people","command":{"aggregate":"people","pipeline":[{"$search":{"index":"default","text":{"query":"secret words","path":"bio"}}},{"$match":{"age":{"$in":[1,2.50,"x"]}}}],"cursor":{},"$db":"crm"},"remote":"10.1.2.3:5000"}}`, "object"},
		{"O", `{"t":{"$date":"2024-05-01T10:00:02.000+00:00"},"s":"I","c":"NETWORK","id":22943,"ctx":"listener","msg":"Connection accepted","attr":{"remote":"192.168.1.5:51234","uuid":{"uuid":{"$uuid":"0d6c2a1e-7a0c-4f5e-9c3b-0a1b2c3d4e5f"}},"client 😀 名前":"mood 😀 café 𠀀 𝒜","connectionId":12,"connectionCount":3}}`, "object"},
		// two lines that share literals across classes and names across roles: any state carried from one line
		// to the next (value caches, name tables) shows as a sequence whose output is not the concatenation
		{"C", `{"t":{"$date":"2024-05-01T10:00:05.000+00:00"},"s":"I","c":"COMMAND","id":51803,"ctx":"conn9","msg":"Slow query","attr":{"type":"command","ns":"shop.$cmd","command":{"update":"orders","updates":[{"q":{"ref":"5f1e2d3c4b5a69788796a5ff","when":"2031-07-09T11:22:33.456Z","mail":"alice@example.com"},"u":{"$set":{"orders":"cmd","blob":"QUJDREVGRw=="}}}],"$db":"shop"},"durationMillis":3}}`, "object"},
		{"D", `{"t":{"$date":"2024-05-01T10:00:06.000+00:00"},"s":"I","c":"COMMAND","id":51803,"ctx":"conn9","msg":"Slow query","attr":{"type":"command","ns":"shop.orders","command":{"aggregate":"orders","pipeline":[{"$match":{"_id":{"$oid":"5f1e2d3c4b5a69788796a5ff"},"at":{"$date":"2031-07-09T11:22:33.456Z"},"bin":{"$binary":{"base64":"QUJDREVGRw==","subType":"00"}},"note":"alice@example.com"}},{"$group":{"_id":"$cmd","n":{"$sum":"$orders"}}}],"cursor":{},"$db":"shop"},"planSummary":"IXSCAN { cmd: 1, orders: 1 }","durationMillis":4}}`, "object"},
		{"E", ``, "nothing"},
		{"W", " \t  ", "nothing"},
		{"T", `this is not json: restarting mongod [initandlisten] pid=1`, "nothing"},
		{"L", `2024-05-01T10:00:00.123+0000 I NETWORK  [conn12] end connection 127.0.0.1:51234 (3 connections now open)`, "nothing"},
		{"U", `{"t":{"$date":"2024-05-01T10:00:03.000+00:00"},"s":"I","c":"COMMAND","msg":"Slow query","attr":{"command":{"find":"c","filter":{"a":"tru`, "open"},
		{"G", `{"t":{"$date":"2024-05-01T10:00:04.000+00:00"},"s":"I","c":"STORAGE","id":1,"ctx":"x","msg":"m","attr":{}} trailing garbage`, "open"},
	}
}

type c06FR struct {
	data []byte
	ext  string
}

func (f *c06FR) Open(string) (io.ReadCloser, error) {
	return io.NopCloser(bytes.NewReader(f.data)), nil
}
func (f *c06FR) GetExtension(string) string { return f.ext }

func gz(b []byte) []byte {
	var buf bytes.Buffer
	w := gzip.NewWriter(&buf)
	w.Write(b)
	w.Close()
	return buf.Bytes()
}

func c06Bar(max int) *progressbar.ProgressBar {
	return progressbar.NewOptions64(int64(max), progressbar.OptionSetWriter(io.Discard))
}

// in-process channels
var c06InChannels = []string{"reader", "file", "gzfile"}
var c06Bars = []string{"nobar", "bar=lines", "bar=newlines", "bar=0"}

func c06RunInproc(text string, nlines int, ch, bar string) (out string, err error, pv any) {
	defer func() {
		if r := recover(); r != nil {
			pv = r
		}
	}()
	var b *progressbar.ProgressBar
	switch bar {
	case "bar=lines":
		b = c06Bar(nlines)
	case "bar=newlines":
		b = c06Bar(strings.Count(text, "\n"))
	case "bar=0":
		b = c06Bar(0)
	}
	var w bytes.Buffer
	switch ch {
	case "reader":
		err = ProcessMongoLogFileFromReader(strings.NewReader(text), &w, b)
	case "file":
		err = ProcessMongoLogFile(&c06FR{[]byte(text), ".log"}, "x.log", &w, b)
	case "gzfile":
		err = ProcessMongoLogFile(&c06FR{gz([]byte(text)), ".gz"}, "x.log.gz", &w, b)
	}
	return w.String(), err, nil
}

func c06Text(lines []string, eol string, final bool) string {
	t := strings.Join(lines, eol)
	if final && len(lines) > 0 {
		t += eol
	}
	return t
}

func c06Run(c *Ctx) {
	alpha := c06Alphabet()
	maxLen := 4
	cliLen := 2
	if c.Thorough() {
		maxLen, cliLen = 5, 3
	}
	flagSets := []Flags{{}, {N: true, B: true, I: true, W: true, R: "<x>", F: []string{"shop"}}}
	eols := []string{"\n", "\r\n"}

	for fi, fl := range flagSets {
		fl.Apply()
		// reference: what each line yields on its own in-process
		ref := make([]string, len(alpha))
		for i, s := range alpha {
			o, ok, pv := redactLine(s.Text)
			if pv != nil {
				c.Note("line %s panics in-process (C07's concern): left out of the alphabet", s.Name)
				ref[i] = "\x00panic"
				continue
			}
			if ok {
				ref[i] = o + "\n"
			}
			switch s.Class {
			case "object":
				if !ok {
					c.Violate("solo:"+s.Name+":dropped", fmt.Sprintf("the JSON-object line %s yields no output line", s.Name), 0, map[string]any{"kind": "c06solo", "line": s.Text, "flags": fl.String()}, nil)
				} else if j, err := ParseJSON([]byte(o)); err != nil || j.Kind != JObj || strings.ContainsAny(o, "\n\r") {
					c.Violate("solo:"+s.Name+":malformed", fmt.Sprintf("the line %s yields %q, not one JSON object on one line", s.Name, o), 0, map[string]any{"kind": "c06solo", "line": s.Text, "flags": fl.String()}, nil)
				}
			case "nothing":
				if ok {
					c.Violate("solo:"+s.Name+":emitted", fmt.Sprintf("the non-JSON / blank line %s contributes output %q", s.Name, o), 0, map[string]any{"kind": "c06solo", "line": s.Text, "flags": fl.String()}, nil)
				}
			}
		}
		var seqNo int64
		states := map[string]bool{}
		body := func(x *X) {
			n := x.Free(maxLen+1, "sequence length")
			seq := make([]int, n)
			for i := range seq {
				seq[i] = x.Free(len(alpha), "line")
			}
			seqNo++
			if !c.Mine(seqNo) {
				x.Skip()
				return
			}
			lines := make([]string, n)
			want := ""
			name := ""
			for i, s := range seq {
				if ref[s] == "\x00panic" {
					x.Skip()
					return
				}
				lines[i] = alpha[s].Text
				want += ref[s]
				name += alpha[s].Name
				states[name] = true
			}
			states[""] = true
			c.P.Transitions += int64(n)
			c.P.Traces++
			c.Distinct(fmt.Sprintf("%d|%s", fi, name))
			for _, eol := range eols {
				for _, final := range []bool{true, false} {
					text := c06Text(lines, eol, final)
					for _, ch := range c06InChannels {
						for _, bar := range c06Bars {
							c.Eval(1)
							run := func() (string, string) {
								out, err, pv := c06RunInproc(text, n, ch, bar)
								if pv != nil {
									return out, fmt.Sprintf("panic: %v", pv)
								}
								if err != nil {
									return out, "error: " + err.Error()
								}
								return out, ""
							}
							out, problem := run()
							chn := ch + "/" + bar
							mk := func(kind string) map[string]any {
								return map[string]any{"kind": "c06seq", "sequence": name, "eol": eol, "final_newline": final, "channel": ch, "bar": bar, "flags": fl.String(), "input": text, "expected": want, "got": out, "problem": problem, "oracle": kind}
							}
							if problem != "" {
								c.Violate("abort:"+chn, fmt.Sprintf("sequence %s through %s: %s", name, chn, problem), int64(n), mk("abort"), func() bool { _, p := run(); return p != "" })
								continue
							}
							if out != want {
								c.Violate("homomorphism:"+chn, fmt.Sprintf("sequence %s (eol %q, final newline %v) through %s: output differs from the concatenation of the one-line outputs", name, eol, final, chn), int64(n), mk("homomorphism"),
									func() bool { o, _ := run(); return o != want })
							}
							c.Outcome(fmt.Sprintf("%d lines out", strings.Count(out, "\n")))
						}
					}
				}
			}
		}
		Explore(body, ExploreOpts{Bound: -1}, func(x *X) {})
		c.P.States += int64(len(states))
		if fi == 0 && c.Shard == 0 {
			c.Sample(map[string]any{"sequence": "A,T,E,B", "input": c06Text([]string{alpha[0].Text, alpha[7].Text, alpha[5].Text, alpha[1].Text}, "\r\n", false)})
		}
	}
	Flags{}.Apply()
	c06GzipMembers(c, alpha)
	badLineHistories(c, "C06")
	twinHistories(c, "C06", append(twinFlagSets, Flags{Z: "^(a|step)$"}, Flags{Y: true}))
	// every line length up to past the reader's limit, five line shapes, on the real stream code
	streamLenSweep(c, "C06", []string{"secret-pad", "keep-blanks", "keep-mixed", "keep-multibyte", "fixed-point", "array-pad"}, Flags{})
	switch c.Shard {
	case 3:
		c06Volume(c, 6000, Flags{})
	case 4:
		c06Volume(c, 6000, Flags{N: true, B: true, I: true, W: true, R: "<x>", F: []string{"shop"}})
	case 5:
		c06Volume(c, 6000, Flags{Z: "^(fld7|email)$"})
	case 6:
		if c.Thorough() {
			c06Volume(c, 70000, Flags{W: true, F: []string{"shop"}})
		}
	}
	c06CLI(c, alpha, cliLen, Flags{})
	// the same sequences with name pseudonymisation on: the name table is the only state that outlives a line
	fl := Flags{N: true, B: true, I: true, W: true, R: "<x>", F: []string{"shop"}}
	if c.Thorough() {
		c06CLI(c, alpha, cliLen, fl)
	} else {
		c06CLI(c, alpha[:5], cliLen, fl)
	}
}

// c06GzipMembers: a .gz file may consist of several members (RFC 1952; what `cat a.gz b.gz` or a writer that
// flushes by size produces), and a member may end anywhere.  For a four-line text in both line-end conventions, the
// archive split into two members at EVERY byte offset, and into three members at every pair of offsets (quick: a
// stride), must give the bytes the one-member archive gives.
func c06GzipMembers(c *Ctx, alpha []c06Sym) {
	for ei, eol := range []string{"\n", "\r\n"} {
		text := c06Text([]string{alpha[0].Text, alpha[2].Text, alpha[7].Text, alpha[1].Text}, eol, ei == 0)
		ref, err, pv := c06RunInproc(text, 4, "gzfile", "nobar")
		if err != nil || pv != nil {
			c.HarnessError("C06 gzip members: the one-member archive fails: %v %v", err, pv)
			return
		}
		run := func(cuts ...int) {
			var parts [][]byte
			prev := 0
			for _, k := range cuts {
				parts = append(parts, []byte(text[prev:k]))
				prev = k
			}
			parts = append(parts, []byte(text[prev:]))
			var w bytes.Buffer
			err := ProcessMongoLogFile(&c06FR{gzBytes(parts...), ".gz"}, "x.log.gz", &w, nil)
			c.Eval(1)
			if err != nil || w.String() != ref {
				c.Violate("gzip-members:differs-from-one-member-archive", fmt.Sprintf("a %d-byte log stored as a gzip file whose members end at offsets %v: error %v, %d output lines instead of %d (the same bytes in one member)", len(text), cuts, err, strings.Count(w.String(), "\n"), strings.Count(ref, "\n")), int64(len(cuts)),
					map[string]any{"kind": "gzip-members", "cuts": cuts, "eol": eol, "text": text}, nil)
			}
		}
		var no int64
		for k := 1; k < len(text); k++ {
			no++
			if !c.Mine(no) {
				continue
			}
			run(k)
			c.Distinct(fmt.Sprintf("gzmembers|%d|%d", ei, k))
			stride := 29
			if c.Thorough() {
				stride = 3
			}
			for k2 := k + 1; k2 < len(text); k2 += stride {
				run(k, k2)
			}
		}
		// an empty member at either end and in the middle
		if c.Shard == 0 {
			for _, parts := range [][][]byte{{{}, []byte(text)}, {[]byte(text), {}}, {[]byte(text[:50]), {}, []byte(text[50:])}} {
				var w bytes.Buffer
				err := ProcessMongoLogFile(&c06FR{gzBytes(parts...), ".gz"}, "x.log.gz", &w, nil)
				if err != nil || w.String() != ref {
					c.Violate("gzip-members:empty-member", fmt.Sprintf("an archive with an empty member: error %v, %d output lines instead of %d", err, strings.Count(w.String(), "\n"), strings.Count(ref, "\n")), 0, map[string]any{"kind": "gzip-members-empty"}, nil)
				}
			}
		}
	}
}

// c06Volume: one long file.  State that builds up during a run (name tables, caches) only shows after
// thousands of lines: the i-th output line of a long run must equal what line i yields in a FRESH process.
func c06Volume(c *Ctx, n int, fl Flags) {
	dir := freshDir(c.Scratch, "c06vol")
	var lines []string
	for i := 0; i < n; i++ {
		switch i % 5 {
		case 0:
			lines = append(lines, fmt.Sprintf(`{"t":{"$date":"2024-05-01T10:00:00.000+00:00"},"s":"I","c":"COMMAND","id":51803,"ctx":"conn%d","msg":"Slow query","attr":{"type":"command","ns":"shop.orders%d","command":{"find":"orders%d","filter":{"fld%d":"value %d","email":"user%d@example.com","ref":{"$oid":"5f1e2d3c4b5a69788796%04x"}},"$db":"shop"},"planSummary":"IXSCAN { fld%d: 1 }","durationMillis":%d}}`, i, i%700, i%700, i%900, i, i, i%65536, i%900, i))
		case 1:
			lines = append(lines, fmt.Sprintf(`{"t":{"$date":"2024-05-01T10:00:00.000+00:00"},"s":"I","c":"COMMAND","id":51803,"ctx":"conn%d","msg":"Slow query","attr":{"type":"command","ns":"shop.orders%d","command":{"aggregate":"orders%d","pipeline":[{"$match":{"fld%d":{"$in":["value %d",%d]}}},{"$group":{"_id":"$fld%d","n":{"$sum":1}}}],"cursor":{},"$db":"shop"},"durationMillis":%d}}`, i, i%700, i%700, (i+1)%900, i-1, i, (i+1)%900, i))
		case 2:
			lines = append(lines, fmt.Sprintf(`{"t":{"$date":"2024-05-01T10:00:02.000+00:00"},"s":"I","c":"NETWORK","id":22943,"ctx":"listener","msg":"Connection accepted","attr":{"remote":"192.168.%d.%d:51234","connectionId":%d}}`, i%250, i%199, i))
		case 3:
			lines = append(lines, fmt.Sprintf("not json %d", i))
		default:
			lines = append(lines, fmt.Sprintf(`{"t":{"$date":"2024-05-01T10:00:00.000+00:00"},"s":"I","c":"WRITE","id":51803,"ctx":"conn%d","msg":"Slow query","attr":{"type":"update","ns":"shop.orders%d","command":{"q":{"fld%d":"value %d"},"u":{"$set":{"fld%d":"value %d","when":{"$date":"2031-07-09T11:22:%02d.456Z"}}},"multi":false,"upsert":false},"durationMillis":%d}}`, i, i%700, i%900, i-4, (i+2)%900, i, i%60, i))
		}
	}
	in := filepath.Join(dir, "volume.log")
	os.WriteFile(in, []byte(strings.Join(lines, "\n")+"\n"), 0o644)
	args := append([]string{"redact", in}, fl.CLIArgs("")...)
	res, err := runCLI(CLIRun{Bin: c.CLI, Args: args, Dir: dir, Timeout: 600 * time.Second})
	if err != nil || res.Exit != 0 {
		c.Violate("volume:exit", fmt.Sprintf("a run over %d lines exits %d: %s", n, res.Exit, trunc(string(res.Stderr), 200)), 0, map[string]any{"kind": "c06volume", "lines": n, "flags": fl.String()}, nil)
		return
	}
	outs := strings.Split(strings.TrimSuffix(string(res.Stdout), "\n"), "\n")
	// expected count: every object line yields one line
	var objIdx []int
	for i := range lines {
		if i%5 != 3 {
			objIdx = append(objIdx, i)
		}
	}
	if len(outs) != len(objIdx) {
		c.Violate("volume:line-count", fmt.Sprintf("a run over %d lines (%d JSON objects) emits %d lines", n, len(objIdx), len(outs)), 0, map[string]any{"kind": "c06volume", "lines": n, "flags": fl.String()}, nil)
		return
	}
	step := len(objIdx) / 150
	if step < 1 {
		step = 1
	}
	one := filepath.Join(dir, "one.log")
	checked := 0
	for k := 0; k < len(objIdx); k++ {
		if k%step != 0 && k < len(objIdx)-60 {
			continue
		}
		os.WriteFile(one, []byte(lines[objIdx[k]]+"\n"), 0o644)
		r1, err := runCLI(CLIRun{Bin: c.CLI, Args: append([]string{"redact", one}, fl.CLIArgs("")...), Dir: dir})
		if err != nil || r1.Exit != 0 {
			continue
		}
		c.Eval(1)
		checked++
		if string(r1.Stdout) != outs[k]+"\n" {
			c.Violate("volume:line-differs-from-fresh-process", fmt.Sprintf("output line %d of a %d-line run differs from what the same input line yields in a fresh process (flags [%s]): %s | %s", k+1, n, fl, trunc(outs[k], 300), trunc(string(r1.Stdout), 300)), int64(k),
				map[string]any{"kind": "c06volume", "lines": n, "flags": fl.String(), "line": lines[objIdx[k]], "in_long_run": outs[k], "alone": string(r1.Stdout)}, nil)
			break
		}
	}
	c.P.Traces++
	c.P.Transitions += int64(len(lines))
	c.Count("volume_lines_compared_with_fresh_process", int64(checked))
	c.Distinct(fmt.Sprintf("volume|%d|%s", n, fl))
}

// CLI channels: input {file, gz, stdin} x output {stdout, outputFile}
func c06CLI(c *Ctx, alpha []c06Sym, maxLen int, fl Flags) {
	ins := []string{"file", "gz", "stdin"}
	outs := []string{"stdout", "outfile"}
	eols := []string{"\n", "\r\n"}
	dir := freshDir(c.Scratch, "cli06")
	preExisting := false // the next run finds a longer file at the output path (what an earlier run left there)
	runOne := func(text string, in, out string) (string, string) {
		os.RemoveAll(filepath.Join(dir, "out.log"))
		if preExisting {
			os.WriteFile(filepath.Join(dir, "out.log"), []byte(strings.Repeat("{\"stale\":\"line of an earlier run\"}\n", 2000)), 0o644)
		}
		args := []string{"redact"}
		r := CLIRun{Bin: c.CLI, Dir: dir}
		switch in {
		case "file":
			if preExisting {
				// the repetition names its input differently: a relative path with a blank and a non-ASCII letter, upper-case extension
				os.WriteFile(filepath.Join(dir, "in put \u00e9.LOG"), []byte(text), 0o644)
				args = append(args, "./in put \u00e9.LOG")
			} else {
				os.WriteFile(filepath.Join(dir, "in.log"), []byte(text), 0o644)
				args = append(args, filepath.Join(dir, "in.log"))
			}
		case "gz":
			if preExisting {
				os.WriteFile(filepath.Join(dir, "in put \u00e9.log.GZ"), gz([]byte(text)), 0o644)
				args = append(args, "in put \u00e9.log.GZ")
			} else {
				os.WriteFile(filepath.Join(dir, "in.log.gz"), gz([]byte(text)), 0o644)
				args = append(args, filepath.Join(dir, "in.log.gz"))
			}
		case "stdin":
			r.StdinMode, r.Stdin = "pipe", []byte(text)
		}
		if out == "outfile" {
			args = append(args, "--outputFile", filepath.Join(dir, "out.log"))
		}
		args = append(args, fl.CLIArgs("")...)
		r.Args = args
		if preExisting {
			r.Env = []string{"LANG=en_US.UTF-8", "LC_CTYPE=en_US.UTF-8"} // the first repetition runs under LANG=C
		}
		res, err := runCLI(r)
		if err != nil {
			return "", "spawn: " + err.Error()
		}
		if res.Exit != 0 || res.Signal != "" {
			return "", fmt.Sprintf("exit %d %s stderr=%q", res.Exit, res.Signal, trunc(string(res.Stderr), 300))
		}
		if out == "outfile" {
			b, err := os.ReadFile(filepath.Join(dir, "out.log"))
			if err != nil {
				return "", "no output file: " + err.Error()
			}
			return string(b), ""
		}
		return string(res.Stdout), ""
	}
	// solo outputs per (symbol) via the simplest channel, checked against in-process reference
	fl.Apply()
	defer Flags{}.Apply()
	solo := make([]string, len(alpha))
	for i, s := range alpha {
		o, problem := runOne(s.Text+"\n", "file", "stdout")
		if problem != "" {
			if strings.Contains(problem, "panic") || strings.Contains(problem, "exit 2") {
				c.Note("line %s aborts the CLI (C07's concern): left out of the CLI alphabet", s.Name)
				solo[i] = "\x00abort"
				continue
			}
			c.Violate("cli-solo:"+s.Name, "one-line run failed: "+problem, 0, map[string]any{"kind": "c06cli", "sequence": s.Name}, nil)
			solo[i] = "\x00abort"
			continue
		}
		solo[i] = o
		io, ok, _ := redactLine(s.Text)
		exp := ""
		if ok {
			exp = io + "\n"
		}
		if o != exp {
			c.Violate("cli-vs-inproc:"+s.Name, fmt.Sprintf("CLI output for line %s differs from the in-process result", s.Name), 0, map[string]any{"kind": "c06cli", "sequence": s.Name, "cli": o, "inproc": exp}, nil)
		}
	}
	var seqNo int64
	body := func(x *X) {
		n := x.Free(maxLen+1, "sequence length")
		seq := make([]int, n)
		for i := range seq {
			seq[i] = x.Free(len(alpha), "line")
		}
		seqNo++
		if !c.Mine(seqNo) {
			x.Skip()
			return
		}
		lines := make([]string, n)
		want, name := "", ""
		for i, s := range seq {
			if solo[s] == "\x00abort" {
				x.Skip()
				return
			}
			lines[i] = alpha[s].Text
			want += solo[s]
			name += alpha[s].Name
		}
		c.P.Transitions += int64(n)
		c.P.Traces++
		c.Distinct("cli|" + fl.String() + "|" + name)
		for _, eol := range eols {
			for _, final := range []bool{true, false} {
				text := c06Text(lines, eol, final)
				for _, in := range ins {
					for _, out := range outs {
						for rep := 0; rep < 2; rep++ {
							c.Eval(1)
							preExisting = rep == 1
							got, problem := runOne(text, in, out)
							preExisting = false
							chn := in + ">" + out
							mk := func() map[string]any {
								return map[string]any{"kind": "c06cli", "sequence": name, "eol": eol, "final_newline": final, "in": in, "out": out, "input": text, "expected": want, "got": got, "problem": problem}
							}
							if problem != "" {
								c.Violate("cli-abort:"+chn, fmt.Sprintf("sequence %s through the CLI (%s): %s", name, chn, problem), int64(n), mk(), nil)
								continue
							}
							if got != want {
								c.Violate("cli-homomorphism:"+chn, fmt.Sprintf("sequence %s (eol %q, final newline %v) through the CLI (%s): output differs from the concatenation of the one-line outputs", name, eol, final, chn), int64(n), mk(),
									func() bool { g, _ := runOne(text, in, out); return g != want })
							}
						}
					}
				}
			}
		}
	}
	Explore(body, ExploreOpts{Bound: -1}, func(x *X) {})
}

func trunc(s string, n int) string {
	if len(s) > n {
		return s[:n] + "…"
	}
	return s
}

func init() {
	register(&PropDef{
		ID: "C06", Level: "model_checking",
		Rule:        "all sequences of length <=4 (thorough 5) over the 9-symbol line alphabet {command line A, command line B, other-component line, empty, whitespace-only, non-JSON text, legacy text-format line, truncated object, object+garbage} x {LF, CRLF} x {final newline, none} x 3 in-process channels (reader, plain file, gzip file) x 4 progress-bar modes x 2 flag sets; all sequences of length <=2 (thorough 3) through the real CLI x 3 input x 2 output channels x EOL x final newline, each twice. States = sequence prefixes, transitions = appended lines; oracle: out(seq) = concatenation of the one-line outputs, one-line outputs checked per class. distinct = (flag set, sequence)" + streamLenRule + "; gzip archives of a 4-line text split into 2 members at EVERY byte offset and into 3 members at pairs of offsets (stride 29, thorough 3), both line-end conventions" + twinRule + badHistRule,
		Assumptions: []string{"truncated objects and objects followed by garbage are borderline members of 'JSON object': their one-line output is taken as it is", "a line that panics is C07's concern and is left out of the alphabet (noted)"},
		Run:         c06Run,
	})
}
