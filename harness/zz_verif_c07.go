//go:build verif

package main

// C07 — no line content can crash or abort a run.

import (
	"bytes"
	"fmt"
	"os"
	"path/filepath"
	"strings"
)

// c07Check redacts one line in-process and evaluates the oracle; returns a violation kind or "".
func c07Check(line string) (kind, detail string) {
	out, ok, pv := redactLine(line)
	if pv != nil {
		return "panic", trunc(fmt.Sprint(pv), 160)
	}
	if !ok {
		return "", ""
	}
	if strings.ContainsAny(out, "\n\r") {
		return "multi-line", ""
	}
	j, err := ParseJSON([]byte(out))
	if err != nil {
		return "malformed-output", err.Error()
	}
	if j.Kind != JObj {
		return "non-object-output", ""
	}
	return "", ""
}

func panicSig(detail string) string {
	// reduce a panic message to its kind
	d := detail
	for _, cut := range []string{"interface conversion: interface {} is ", "interface conversion: "} {
		if i := strings.Index(d, cut); i >= 0 {
			d = d[i+len(cut):]
			break
		}
	}
	d = strings.Map(func(r rune) rune {
		if r == ' ' || r == ':' || r == '{' || r == '}' {
			return '_'
		}
		return r
	}, d)
	return trunc(d, 60)
}

func c07Seeds() []string {
	var out []string
	// the default derivation of every slot, and one richer line per mode
	for i := range slots {
		Explore(func(x *X) {
			cs := genCase(x, GenOpts{OneGate: true, LeafSet: 2})
			if !x.skip {
				out = append(out, cs.Root.JSON())
			}
		}, ExploreOpts{Bound: 0, Prefix: []int{i}, Only: true}, func(x *X) {})
	}
	out = append(out, c06Alphabet()[0].Text, c06Alphabet()[1].Text, c06Alphabet()[2].Text)
	// order: the three realistic lines first, then the slots
	return append(out[len(out)-3:], out[:len(out)-3]...)
}

var c07FlagSets = []Flags{
	{},
	{N: true, B: true, I: true, W: true},
	{F: []string{"db1.c1", "dbZq1.coQx7", "shop", "crm"}},
	{Z: "^(fld|a|k|s)$"},
	{Y: true, N: true},
}

func c07Run(c *Ctx) {
	var caseNo int64
	eval := func(group, line string, rank int64, fl Flags) {
		c.Eval(1)
		kind, detail := c07Check(line)
		if kind == "" {
			c.Outcome("ok")
			return
		}
		c.Outcome(kind)
		sig := kind + ":" + group
		if kind == "panic" {
			sig = "panic:" + panicSig(detail)
		}
		c.Violate(sig, fmt.Sprintf("%s while redacting %s under flags [%s]: %s", kind, trunc(fmt.Sprintf("%q", line), 300), fl, detail), rank,
			map[string]any{"kind": "c07line", "line": line, "flags": fl.String(), "group": group},
			func() bool { fl.Apply(); k, _ := c07Check(line); return k != "" })
	}

	// (i) all byte strings of length 1 and 2, all strings of length 3 over a JSON-structural alphabet
	alpha3 := []byte("{}[]:,\"\\ -0123456789.eEtfn\tu$a\x80\xff")
	for fi, fl := range c07FlagSets[:2] {
		fl.Apply()
		for a := 0; a < 256; a++ {
			caseNo++
			if c.Mine(caseNo) {
				eval("bytes1", string([]byte{byte(a)}), 1, fl)
				if fi == 0 {
					c.Distinct(string([]byte{byte(a)}))
				}
				for b := 0; b < 256; b++ {
					eval("bytes2", string([]byte{byte(a), byte(b)}), 2, fl)
					if fi == 0 {
						c.Distinct(string([]byte{byte(a), byte(b)}))
					}
				}
			}
		}
		for _, a := range alpha3 {
			for _, b := range alpha3 {
				caseNo++
				if !c.Mine(caseNo) {
					continue
				}
				for _, d := range alpha3 {
					l := string([]byte{a, b, d})
					eval("bytes3", l, 3, fl)
					if fi == 0 {
						c.Distinct(l)
					}
				}
			}
		}
	}
	// top-level values of every JSON token class and legacy text lines
	tops := []string{`123`, `-1.5e3`, `null`, `true`, `false`, `"str"`, `[]`, `[1,2]`, `[{"a":1}]`, `{}`, `{"attr":null}`, `{"attr":5}`, `{"attr":[]}`, `{"attr":{}}`,
		`{"attr":{"command":5},"c":"COMMAND"}`, `{"attr":{"command":null},"c":"COMMAND"}`, `{"attr":{"command":[]},"c":"COMMAND"}`, `{"attr":{"command":{"pipeline":5}},"c":"COMMAND"}`,
		`{"attr":{"command":{"pipeline":[5,null,"x",[1],{}]}},"c":"COMMAND"}`, `{"attr":{"command":{"updates":[5,null,"x",[1]]}},"c":"COMMAND"}`, `{"attr":{"command":{"insert":"c","documents":[5,null,[{}]]}},"c":"COMMAND"}`,
		`{"c":5,"msg":{},"attr":{"command":{"filter":{"a":1}}}}`, `{"attr":{"remote":5,"ns":7,"planSummary":{},"command":{"find":5,"filter":{"a":"b"}}},"c":"COMMAND"}`,
		`2024-05-01T10:00:00.123+0000 I NETWORK  [conn1] end connection 127.0.0.1:5000 (1 connection now open)`, `Thu May  1 10:00:00.123 [initandlisten] MongoDB starting`, `2024`, `-`, `{"a":1} {"b":2}`, `{"a":1}garbage`,
		`{"t":{"$date":"2024"},"c":"COMMAND","attr":{"command":{"find":"c","filter":{"a":"tru`, "\ufeff{\"a\":1}", `{"a":"\ud800"}`, "{\"a\":\"\xff\xfe\"}", `{"a":1,"a":2}`, `{"":{"":[{"":null}]}}`}
	for _, fl := range c07FlagSets {
		fl.Apply()
		for _, t := range tops {
			caseNo++
			if c.Mine(caseNo) {
				eval("top-level", t, int64(len(t)), fl)
				c.Distinct(t)
			}
		}
	}

	// (ii) every truncation and every single-byte edit of the seed lines
	seeds := c07Seeds()
	c.Count("seed_lines", int64(len(seeds)))
	subs := []byte("\"{}[]:,\\0 $n")
	stride := 1
	nseeds := len(seeds)
	if !c.Thorough() && nseeds > 8 {
		nseeds = 8
	}
	for si, seed := range seeds[:nseeds] {
		for fi, fl := range c07FlagSets[:3] {
			if fi > 0 && !c.Thorough() {
				break
			}
			fl.Apply()
			b := []byte(seed)
			for off := 0; off < len(b); off += stride {
				caseNo++
				if !c.Mine(caseNo) {
					continue
				}
				// truncation
				eval("truncation", string(b[:off]), int64(off), fl)
				// deletion
				eval("edit", string(append(append([]byte{}, b[:off]...), b[off+1:]...)), int64(off), fl)
				for _, sb := range subs {
					if b[off] == sb {
						continue
					}
					m := append([]byte{}, b...)
					m[off] = sb
					eval("edit", string(m), int64(off), fl)
				}
				if fi == 0 {
					c.Distinct(fmt.Sprintf("seed%d@%d", si, off))
				}
			}
		}
	}

	// (iii) T: every value kind under every vocabulary path, in every placement
	paths, drift := vocabPaths(c.Src)
	for _, d := range drift {
		c.Note("vocabulary drift: %q is not in the snapshot (tried at top level and under every top-level operator)", d)
	}
	vals := tValues()
	places := tPlacements()
	fsT := c07FlagSets
	if !c.Thorough() {
		fsT = c07FlagSets[:4]
	}
	var cur struct {
		line string
		desc string
	}
	st := Explore(func(x *X) {
		l, _, _, d := genT(x, paths, vals, places)
		cur.line, cur.desc = l.JSON(), d
	}, ExploreOpts{Bound: -1, ShardDepth: 2, Shard: c.Shard, NShards: c.NShards}, func(x *X) {
		c.Distinct(cur.line)
		for _, fl := range fsT {
			fl.Apply()
			eval("T", cur.line, int64(len(cur.line)), fl)
		}
	})
	c.Count("T_trees", st.Executions)
	if c.Shard == 0 {
		c.Sample(map[string]any{"group": "T", "desc": cur.desc, "line": cur.line})
		c.Sample(map[string]any{"group": "edit", "line": seeds[0][:40] + "\\" + seeds[0][41:120] + "…"})
	}

	// (vii) every string of length <= 4 (quick: <= 3, and length 4 over a reduced alphabet) over a content
	// alphabet, as key and as value in every kind of value context: classifiers applied to string contents
	// (e-mail shape, '$' prefix, date / oid / base64 wrappers, plan summary, namespaces) see every short
	// combination of their trigger characters
	calpha := []string{"a", "@", ".", "$", "\"", "\\", " ", "0", "-", ":", "Z", "/", "=", "é", "{", "\u0000"}
	ctxs := []func(sv string) string{
		func(sv string) string {
			return `{"c":"COMMAND","msg":"Slow query","attr":{"ns":"d.c","command":{"find":"c","filter":{"f":` + sv + `,"g":{"$in":[1,` + sv + `]}},"$db":"d"}}}`
		},
		func(sv string) string {
			return `{"c":"COMMAND","msg":"Slow query","attr":{"ns":"d.c","command":{"aggregate":"c","pipeline":[{"$match":{"f":` + sv + `}},{"$addFields":{"g":{"$concat":[` + sv + `,"$f"]}}},{"$search":{"text":{"query":` + sv + `,"path":` + sv + `}}}],"$db":"d"}}}`
		},
		func(sv string) string {
			return `{"c":"WRITE","msg":"Slow query","attr":{"ns":"d.c","command":{"q":{"_id":{"$oid":` + sv + `},"d":{"$date":` + sv + `}},"u":{"$set":{"b":{"$binary":{"base64":` + sv + `,"subType":` + sv + `}}}}}}}`
		},
		func(sv string) string {
			return `{"c":"COMMAND","msg":"Slow query","attr":{"ns":` + sv + `,"remote":` + sv + `,"planSummary":` + sv + `,"command":{"find":` + sv + `,"filter":{` + sv + `:1},"sort":{` + sv + `:-1},"$db":` + sv + `}}}`
		},
		func(sv string) string {
			return `{"c":"COMMAND","msg":"Slow query","attr":{"ns":"d.c","command":{"aggregate":"c","pipeline":[{"$lookup":{"from":` + sv + `,"localField":` + sv + `,"foreignField":` + sv + `,"as":` + sv + `}},{"$group":{"_id":` + sv + `}},{"$unwind":` + sv + `},{"$merge":` + sv + `}],"$db":"d"}}}`
		},
	}
	maxLen := 3
	if c.Thorough() {
		maxLen = 4
	}
	var gen func(prefix []int, n int)
	gen = func(prefix []int, n int) {
		if len(prefix) == n {
			var sb strings.Builder
			sb.WriteByte('"')
			for _, i := range prefix {
				sb.WriteString(calpha[i])
			}
			sb.WriteByte('"')
			sv := sb.String()
			c.Distinct("short:" + sv)
			for _, mk := range ctxs {
				line := mk(sv)
				for _, fl := range c07FlagSets[1:4] {
					fl.Apply()
					eval("short-string", line, int64(len(sv)), fl)
				}
			}
			return
		}
		for i := range calpha {
			if len(prefix) == 0 {
				caseNo++
				if n > 1 && !c.Mine(caseNo) {
					continue
				}
				if n == 1 && c.Shard != 0 {
					continue
				}
			}
			gen(append(prefix, i), n)
		}
	}
	for n := 0; n <= maxLen; n++ {
		gen(nil, n)
	}

	// (viii) the scale layers of G (zz_verif_scale.go): every width / depth / literal length of a range, in every
	// mode (placeholder, encryption, field names, selective) — fixed-size buffers and recursion limits
	{
		var sc *Case
		st := Explore(func(x *X) { sc = genScaleCase(x, GenOpts{Scale: true, ScaleThorough: c.Thorough()}) },
			ExploreOpts{Bound: 0, ShardDepth: 3, Shard: c.Shard, NShards: c.NShards}, func(x *X) {
				line := sc.Root.JSON()
				c.Distinct(line)
				for _, fl := range c07FlagSets {
					fl.Apply()
					eval("scale", line, int64(len(line)), fl)
				}
			})
		c.Count("scale_cases", st.Executions)
	}

	// (iv) nesting ladders, in-process for moderate depths
	Flags{N: true}.Apply()
	for _, depth := range []int{1, 2, 3, 10, 100, 1000, 3000} {
		for _, kind := range []string{"arr", "obj", "alt"} {
			for _, pos := range []string{"filter", "attr"} {
				caseNo++
				if !c.Mine(caseNo) {
					continue
				}
				l := ladderLine(depth, kind, pos)
				eval("ladder", l, int64(depth), Flags{N: true})
				c.Distinct(fmt.Sprintf("ladder %d %s %s", depth, kind, pos))
			}
		}
	}
	Flags{}.Apply()

	// (ix) the first bytes of the input: every 2-byte prefix in front of a 3-line stream, through the stream entry
	// points (reader, plain file) in-process, and a selection through the CLI.  Content sniffing (compression
	// signatures, byte-order marks) looks at exactly these bytes.
	c07FirstBytes(c)

	// (v),(iv) through the CLI: streams with a bad line first / middle / last; deep ladders; long lines
	c07CLI(c)
	// long histories of one kind of damaged line
	badLineHistories(c, "C07")
}

func c07FirstBytes(c *Ctx) {
	good1, good2 := c06Alphabet()[0].Text, c06Alphabet()[2].Text
	Flags{}.Apply()
	s1, ok1, _ := redactLine(good1)
	s2, ok2, _ := redactLine(good2)
	if !ok1 || !ok2 {
		return
	}
	want := s1 + "\n" + s2 + "\n"
	tail := " junk that is not json\n" + good1 + "\n" + good2 + "\n"
	judge := func(out string, err error, pv any, via string, b0, b1 int) {
		c.Eval(1)
		rep := map[string]any{"kind": "first-bytes", "bytes": fmt.Sprintf("%02x %02x", b0, b1), "via": via}
		switch {
		case pv != nil:
			c.Violate("first-bytes:panic", fmt.Sprintf("an input that starts with the bytes %02x %02x (then text that is not JSON, then two ordinary lines) through %s: panic %v", b0, b1, via, pv), int64(b0*256+b1), rep, nil)
		case err != nil:
			c.Violate("first-bytes:run-aborted", fmt.Sprintf("an input that starts with the bytes %02x %02x (then text that is not JSON, then two ordinary lines) through %s: the run stops with %v and the ordinary lines are lost", b0, b1, via, err), int64(b0*256+b1), rep, nil)
		case !strings.HasSuffix(out, want) || strings.Count(out, "\n") > 3:
			c.Violate("first-bytes:neighbours", fmt.Sprintf("an input that starts with the bytes %02x %02x through %s: the two ordinary lines after the first line do not come out as on their own (%d output lines)", b0, b1, via, strings.Count(out, "\n")), int64(b0*256+b1), rep, nil)
		default:
			c.Outcome("first-bytes-harmless")
		}
	}
	var no int64
	for b0 := 0; b0 < 256; b0++ {
		for b1 := 0; b1 < 256; b1++ {
			no++
			if !c.Mine(no) {
				continue
			}
			text := string([]byte{byte(b0), byte(b1)}) + tail
			for _, ch := range []string{"reader", "file"} {
				out, err, pv := c06RunInproc(text, 3, ch, "nobar")
				judge(out, err, pv, ch+" (in-process)", b0, b1)
			}
			c.Distinct(fmt.Sprintf("first-bytes|%02x%02x", b0, b1))
		}
	}
	// through the CLI: known signatures and every first byte with three second bytes, as a file and on stdin
	dir := freshDir(c.Scratch, "first07")
	sigs := [][]byte{{0x1f, 0x8b}, {0x1f, 0x8b, 0x08}, {0x1f, 0x9d}, {0x28, 0xb5, 0x2f, 0xfd}, {'B', 'Z', 'h', '9'}, {0xfd, '7', 'z', 'X', 'Z', 0}, {'P', 'K', 3, 4}, {0x04, 0x22, 0x4d, 0x18}, {0xef, 0xbb, 0xbf}, {0xff, 0xfe}, {0xfe, 0xff}, {0x78, 0x9c}, {0x5d, 0, 0}, {'#', '!'}, {0, 0}}
	for b0 := 0; b0 < 256; b0++ {
		for _, b1 := range []byte{0x8b, 0x00, '{'} {
			sigs = append(sigs, []byte{byte(b0), b1})
		}
	}
	for si, sg := range sigs {
		if !c.Mine(int64(si)) {
			continue
		}
		text := string(sg) + tail
		p := filepath.Join(dir, "first.log")
		os.WriteFile(p, []byte(text), 0o644)
		for _, via := range []string{"file", "stdin"} {
			run := CLIRun{Bin: c.CLI, Args: []string{"redact", p}, Dir: dir}
			if via == "stdin" {
				run = CLIRun{Bin: c.CLI, Args: []string{"redact"}, Dir: dir, StdinMode: "pipe", Stdin: []byte(text)}
			}
			res, err := runCLI(run)
			if err != nil {
				continue
			}
			c.Count("cli_runs", 1)
			b1 := 0
			if len(sg) > 1 {
				b1 = int(sg[1])
			}
			var e error
			if res.Exit != 0 {
				e = fmt.Errorf("exit status %d: %s", res.Exit, trunc(string(res.Stderr), 160))
			}
			judge(string(res.Stdout), e, nil, "the CLI ("+via+")", int(sg[0]), b1)
		}
	}
}

func ladderLine(depth int, kind, pos string) string {
	var open, close string
	switch kind {
	case "arr":
		open, close = strings.Repeat("[", depth), strings.Repeat("]", depth)
	case "obj":
		open, close = strings.Repeat(`{"a":`, depth)+"1", strings.Repeat("}", depth)
	default:
		open, close = strings.Repeat(`[{"a":`, depth)+"1", strings.Repeat("}]", depth)
	}
	v := open + close
	if pos == "filter" {
		return `{"t":{"$date":"2024-05-01T10:00:00.123+00:00"},"s":"I","c":"COMMAND","id":1,"ctx":"c","msg":"Slow query","attr":{"ns":"d.c","command":{"find":"c","filter":{"a":` + v + `}}}}`
	}
	return `{"t":{"$date":"2024-05-01T10:00:00.123+00:00"},"s":"I","c":"COMMAND","id":1,"ctx":"c","msg":"Slow query","attr":{"ns":"d.c","deep":` + v + `,"command":{"find":"c","filter":{"a":"x"}}}}`
}

func c07CLI(c *Ctx) {
	dir := freshDir(c.Scratch, "cli07")
	good1 := c06Alphabet()[0].Text
	good2 := c06Alphabet()[2].Text
	soloOf := func(line string) (string, bool) {
		os.WriteFile(filepath.Join(dir, "solo.log"), []byte(line+"\n"), 0o644)
		res, err := runCLI(CLIRun{Bin: c.CLI, Args: []string{"redact", filepath.Join(dir, "solo.log")}, Dir: dir})
		if err != nil || res.Exit != 0 {
			return "", false
		}
		return string(res.Stdout), true
	}
	s1, ok1 := soloOf(good1)
	s2, ok2 := soloOf(good2)
	if !ok1 || !ok2 {
		c.HarnessError("C07: the good neighbour lines fail on their own")
		return
	}
	bad := []struct{ name, line string }{
		{"number", `123`}, {"null", `null`}, {"array", `[1,2]`}, {"string", `"str"`}, {"legacy-text", `2024-05-01T10:00:00.123+0000 I NETWORK  [conn1] end connection`},
		{"truncated", good1[:len(good1)/2]}, {"date-number", `{"c":"COMMAND","msg":"Slow query","attr":{"command":{"find":"c","filter":{"a":{"$date":12345}}}}}`},
		{"oid-null", `{"c":"COMMAND","msg":"Slow query","attr":{"command":{"find":"c","filter":{"a":{"$oid":null}}}}}`},
		{"base64-array", `{"c":"COMMAND","msg":"Slow query","attr":{"command":{"aggregate":"c","pipeline":[{"$match":{"a":{"$binary":{"base64":[1],"subType":"00"}}}}]}}}`},
		{"date-doc-in-update", `{"c":"WRITE","msg":"Slow query","attr":{"command":{"q":{"a":{"$date":{"$numberLong":"5"}}},"u":{"$set":{"b":{"$oid":7}}}}}}`},
		{"garbage", "\x00\x01\xff{{{"}, {"ladder-arr-20000", ladderLine(20000, "arr", "filter")}, {"ladder-obj-10000", ladderLine(10000, "obj", "attr")}, {"ladder-alt-8000", ladderLine(8000, "alt", "filter")},
	}
	flagArgs := [][]string{nil, {"--redactNumbers", "--redactBooleans", "--redactIPs", "--redactNamespaces"}, {"--redactFieldNames", "shop.orders"}, {"--redactFieldsRegexp", "^email$"}}
	var caseNo int64
	for _, b := range bad {
		for pos := 0; pos < 3; pos++ {
			for fi, fa := range flagArgs {
				caseNo++
				if !c.Mine(caseNo) {
					continue
				}
				if fi > 0 && !c.Thorough() && pos != 1 {
					continue
				}
				lines := []string{good1, good2}
				var in []string
				switch pos {
				case 0:
					in = []string{b.line, good1, good2}
				case 1:
					in = []string{good1, b.line, good2}
				default:
					in = []string{good1, good2, b.line}
				}
				_ = lines
				p := filepath.Join(dir, fmt.Sprintf("in_%d.log", c.Shard))
				os.WriteFile(p, []byte(strings.Join(in, "\n")+"\n"), 0o644)
				// position 0: file -> stdout; position 1: stdin -> --outputFile onto a longer file an earlier run left
				// there; position 2: file -> --outputFile onto such a file ("at most one output line" counts stale ones)
				run := CLIRun{Bin: c.CLI, Args: append([]string{"redact", p}, fa...), Dir: dir}
				outPath := filepath.Join(dir, fmt.Sprintf("out_%d.log", c.Shard))
				if pos >= 1 {
					os.WriteFile(outPath, []byte(strings.Repeat("{\"stale\":\"line of an earlier run\"}\n", 3000)), 0o644)
					run.Args = append(run.Args, "--outputFile", outPath)
					if pos == 1 {
						run.Args = append(append([]string{"redact"}, fa...), "--outputFile", outPath)
						run.StdinMode, run.Stdin = "pipe", []byte(strings.Join(in, "\n")+"\n")
					}
				}
				res, err := runCLI(run)
				if pos >= 1 && err == nil {
					res.Stdout, _ = os.ReadFile(outPath)
				}
				c.Eval(1)
				c.Distinct(fmt.Sprintf("cli %s %d %d", b.name, pos, fi))
				if err != nil {
					c.HarnessError("spawn: %v", err)
					continue
				}
				rep := map[string]any{"kind": "c07cli", "bad_line": trunc(b.line, 400), "position": pos, "args": fa, "exit": res.Exit, "stderr": trunc(string(res.Stderr), 600)}
				if res.Exit != 0 || res.Signal != "" {
					what := "exits " + fmt.Sprint(res.Exit)
					if bytes.Contains(res.Stderr, []byte("panic")) || bytes.Contains(res.Stderr, []byte("fatal error")) {
						what = "crashes (" + trunc(firstLine(string(res.Stderr)), 120) + ")"
					}
					c.Violate("cli-abort:"+b.name, fmt.Sprintf("a %s line at position %d of a 3-line input: the run %s", b.name, pos, what), int64(pos), rep, nil)
					continue
				}
				if fi != 0 {
					continue // neighbours are compared under default flags only (solo outputs are for default flags)
				}
				out := string(res.Stdout)
				// the good neighbours must come out exactly as alone, in order; the bad line adds at most one well-formed line
				rest, okn := stripNeighbours(out, s1, s2, pos)
				if !okn {
					c.Violate("cli-neighbours:"+b.name, fmt.Sprintf("a %s line at position %d changes what its neighbour lines yield", b.name, pos), int64(pos), rep, nil)
					continue
				}
				if rest != "" {
					if strings.Count(rest, "\n") != 1 || !strings.HasSuffix(rest, "\n") {
						c.Violate("cli-extra-lines:"+b.name, fmt.Sprintf("a %s line yields %d output lines", b.name, strings.Count(rest, "\n")), int64(pos), rep, nil)
					} else if j, err := ParseJSON([]byte(strings.TrimSuffix(rest, "\n"))); err != nil || j.Kind != JObj {
						c.Violate("cli-malformed:"+b.name, fmt.Sprintf("a %s line yields a line that is not a JSON object: %s", b.name, trunc(rest, 200)), int64(pos), rep, nil)
					}
				}
			}
		}
	}
	// over-long lines: around the reader's limit and 1 MiB
	// wide lines (one long string) around the limit and at 1 MiB; DEEP lines (nothing but nesting) from 128 KiB to 12 MiB:
	// whatever the reader's limit is, a line it lets through must not bring the process down
	for _, n := range []int{65000, 65535, 65536, 65537, 66000, 131072, 1 << 20, -(128 << 10), -(1 << 20), -(5 << 20), -(12 << 20)} {
		for pos := 0; pos < 2; pos++ {
			caseNo++
			if !c.Mine(caseNo) {
				continue
			}
			marker := "LONGLINEMARKERq7Z"
			var long string
			if n > 0 {
				pad := n - len(`{"c":"NETWORK","msg":"m","attr":{"pad":""}}`) - len(marker)
				long = `{"c":"NETWORK","msg":"m","attr":{"pad":"` + marker + strings.Repeat("x", pad) + `"}}`
			} else {
				n = -n
				k := (n - 120) / 2
				kind := "["
				if pos == 1 {
					kind = `{"k":` // objects in the second position
					k = (n - 120) / 6
				}
				closer := map[string]string{"[": "]", `{"k":`: "}"}[kind]
				long = `{"c":"COMMAND","msg":"Slow query","attr":{"command":{"find":"c","filter":{"LONGLINEMARKERq7Z":` + strings.Repeat(kind, k) + `1` + strings.Repeat(closer, k) + `}}}}`
			}
			var in string
			if pos == 0 {
				in = good1 + "\n" + long + "\n" + good2 + "\n"
			} else {
				in = good1 + "\n" + good2 + "\n" + long
			}
			p := filepath.Join(dir, fmt.Sprintf("long_%d.log", c.Shard))
			os.WriteFile(p, []byte(in), 0o644)
			res, err := runCLI(CLIRun{Bin: c.CLI, Args: []string{"redact", p}, Dir: dir})
			c.Eval(1)
			c.Distinct(fmt.Sprintf("long %d %d", n, pos))
			if err != nil {
				c.HarnessError("spawn: %v", err)
				continue
			}
			out := string(res.Stdout)
			rep := map[string]any{"kind": "c07long", "length": n, "position": pos, "exit": res.Exit, "stderr": trunc(string(res.Stderr), 300)}
			if res.Exit == 0 {
				// processed normally: must be complete
				want := s1 + long + "\n" + s2
				if pos == 1 {
					want = s1 + s2 + long + "\n"
				}
				if out != want {
					c.Violate("long-line:silent", fmt.Sprintf("a %d-byte line: exit 0 but the output is not the complete redaction of the input (truncated or dropped)", n), int64(n), rep, nil)
				}
				c.Outcome("long-ok")
				continue
			}
			c.Outcome("long-rejected")
			if len(bytes.TrimSpace(res.Stderr)) == 0 {
				c.Violate("long-line:no-message", fmt.Sprintf("a %d-byte line: non-zero exit without a message", n), int64(n), rep, nil)
			}
			if bytes.Contains(res.Stderr, []byte("panic")) || bytes.Contains(res.Stderr, []byte("goroutine ")) {
				c.Violate("long-line:crash", fmt.Sprintf("a %d-byte line crashes the run", n), int64(n), rep, nil)
			}
			if strings.Contains(out, marker) || strings.Contains(out, "xxxxxxxx") {
				c.Violate("long-line:fragment", fmt.Sprintf("a fragment of the over-long %d-byte line reaches the output", n), int64(n), rep, nil)
			}
			if !strings.HasPrefix(out, s1) {
				c.Violate("long-line:earlier-lines", fmt.Sprintf("lines before the over-long %d-byte line are not intact", n), int64(n), rep, nil)
			}
		}
	}
}

func firstLine(s string) string {
	if i := strings.IndexByte(s, '\n'); i >= 0 {
		return s[:i]
	}
	return s
}

// stripNeighbours removes the outputs of the two good lines (s1 then s2) from out, given the position
// of the bad line, and returns what the bad line contributed.
func stripNeighbours(out, s1, s2 string, pos int) (string, bool) {
	switch pos {
	case 0:
		if !strings.HasSuffix(out, s1+s2) {
			return "", false
		}
		return strings.TrimSuffix(out, s1+s2), true
	case 1:
		if !strings.HasPrefix(out, s1) || !strings.HasSuffix(out, s2) || len(out) < len(s1)+len(s2) {
			return "", false
		}
		return out[len(s1) : len(out)-len(s2)], true
	default:
		if !strings.HasPrefix(out, s1+s2) {
			return "", false
		}
		return strings.TrimPrefix(out, s1+s2), true
	}
}

func init() {
	register(&PropDef{
		ID: "C07", Level: "exploration",
		Rule:        "(i) all byte strings of length 1 and 2 and all 3-byte strings over a 31-symbol JSON-structural alphabet; top-level values of every token class and legacy text lines; (ii) every truncation and every single-byte edit (deletion or substitution by one of 12 structural bytes) at every offset of the seed lines (one per grammar slot; quick: 8 seeds); (iii) every vocabulary path x 53 value kinds (incl. number/null/bool/array/document under $date, $oid, $binary.base64, $binary) x 5 tree shapes x 10 placements; (iv) nesting ladders up to depth 3 000 in-process and 20 000 through the CLI; (v) each bad-line class first/middle/last in a 3-line stream through the CLI, lines of 65 000 … 1 MiB bytes; flag sets incl. field-name, selective and encrypt modes. Oracle: no panic, <=1 well-formed output line, neighbours unaffected, over-long lines rejected explicitly. distinct = distinct lines / (seed, offset) pairs / CLI scenarios" + scaleRule + "; (ix) every 2-byte prefix (65 536) in front of a 3-line stream through the reader and plain-file entry points, and file signatures + 768 prefixes through the CLI as file and on stdin" + badHistRule,
		Assumptions: []string{"lines edited in more than one byte and nesting deeper than the 64 KiB line limit allows are not explored"},
		Run:         c07Run,
	})
}
