//go:build verif

package main

// Entry point of the harness binary.  With VERIF_MODE unset the binary behaves exactly like the
// pristine CLI.  With VERIF_MODE=child-cli only the environment seams are installed and the real
// main() runs.  Otherwise the harness takes over and exits.

import (
	"fmt"
	"os"
	"strings"
)

func init() {
	switch os.Getenv("VERIF_MODE") {
	case "":
		return
	case "child-cli":
		installChildSeams()
		return
	default:
		// the harness decides the locale of every process it starts; its own in-process runs see none
		for _, v := range []string{"LANG", "LANGUAGE", "LC_ALL", "LC_CTYPE", "LC_MESSAGES", "LC_COLLATE"} {
			os.Unsetenv(v)
		}
		os.Exit(verifMain())
	}
}

// ---------------------------------------------------------------------------------------------
// Redaction configurations (DESIGN.md 2.6), applied through the setters main() uses.

type Flags struct {
	N, B, I, W bool
	R          string   // replacement text ("" = default REDACTED)
	REmpty     bool     // replacement is the empty string
	F          []string // --redactFieldNames prefixes
	Y          bool     // --encrypt with the fixed harness key
	Z          string   // --redactFieldsRegexp
	Key        []byte   // encryption key when Y (nil = harness default key)
}

func (f Flags) Replacement() string {
	if f.REmpty {
		return ""
	}
	if f.R == "" {
		return RedactedString
	}
	return f.R
}

func (f Flags) String() string {
	var p []string
	if f.N {
		p = append(p, "N")
	}
	if f.B {
		p = append(p, "B")
	}
	if f.I {
		p = append(p, "I")
	}
	if f.W {
		p = append(p, "W")
	}
	if f.R != "" || f.REmpty {
		p = append(p, fmt.Sprintf("R=%q", f.Replacement()))
	}
	if len(f.F) > 0 {
		p = append(p, "F="+strings.Join(f.F, ","))
	}
	if f.Y {
		p = append(p, "Y")
	}
	if f.Z != "" {
		p = append(p, "Z="+f.Z)
	}
	if len(p) == 0 {
		return "-"
	}
	return strings.Join(p, " ")
}

// CLIArgs renders the flag set as command-line arguments of `redact`.
func (f Flags) CLIArgs(keyFile string) []string {
	var a []string
	if f.N {
		a = append(a, "--redactNumbers")
	}
	if f.B {
		a = append(a, "--redactBooleans")
	}
	if f.I {
		a = append(a, "--redactIPs")
	}
	if f.W {
		a = append(a, "--redactNamespaces")
	}
	if f.R != "" || f.REmpty {
		a = append(a, "--replacement", f.Replacement())
	}
	for _, p := range f.F {
		a = append(a, "--redactFieldNames", p)
	}
	if f.Y {
		a = append(a, "--encrypt", "--encryptionKeyFile", keyFile)
	}
	if f.Z != "" {
		a = append(a, "--redactFieldsRegexp", f.Z)
	}
	return a
}

var harnessKey = func() []byte {
	k := make([]byte, 64)
	for i := range k {
		k[i] = byte(i*7 + 3)
	}
	return k
}()

func (f Flags) Apply() {
	SetRedactedString(f.Replacement())
	SetRedactNumbers(f.N)
	SetRedactBooleans(f.B)
	SetRedactIPs(f.I)
	SetRedactNamespaces(f.W)
	SetEagerRedactionPaths(f.F)
	SetRedactedFieldsRegexp(f.Z)
	SetShouldEncrypt(f.Y)
	if f.Y {
		if f.Key != nil {
			SetEncryptionKey(f.Key)
		} else {
			SetEncryptionKey(harnessKey)
		}
	} else {
		SetEncryptionKey(nil)
	}
}

// redactLine runs the in-process redaction of one line: (output, ok, panicValue).
// ok=false with panicValue=nil means the line was rejected with an error.
func redactLine(line string) (out string, ok bool, pv any) {
	defer func() {
		if r := recover(); r != nil {
			out, ok, pv = "", false, r
		}
	}()
	m, err := RedactMongoLog(line)
	if err != nil {
		return "", false, nil
	}
	b, err := MarshalOrdered(m)
	if err != nil {
		return "", false, nil
	}
	return string(b), true, nil
}
