//go:build verif

package main

// Driver / worker plumbing: property registry, sharded workers, merging, known findings,
// replay artefacts, evidence files (DESIGN.md 2.10, 2.11, 6).

import (
	"encoding/binary"
	"encoding/json"
	"fmt"
	"hash/fnv"
	"os"
	"os/exec"
	"path/filepath"
	"regexp"
	"runtime"
	"sort"
	"strconv"
	"strings"
	"syscall"
	"time"
)

type PropDef struct {
	ID          string
	Level       string // exploration | fault_enumeration | model_checking
	Rule        string
	Assumptions []string
	Workers     int                                 // 0 = nproc
	Run         func(c *Ctx)                        // executed in every worker (sharded)
	Post        func(c *Ctx, m *Part)               // optional, executed in the driver after merging
	Replay      func(c *Ctx, r map[string]any) bool // re-runs one recorded case; true = violation reproduced
}

var registry = map[string]*PropDef{}

func register(p *PropDef) { registry[p.ID] = p }

type Viol struct {
	Sig    string         `json:"sig"`
	Count  int64          `json:"count"`
	What   string         `json:"what"`
	Replay map[string]any `json:"replay"`
	Rank   int64          `json:"rank"` // size of the first case: smallest wins on merge
}

type Part struct {
	Evaluations int64               `json:"evaluations"`
	Distinct    int64               `json:"distinct"`
	Counters    map[string]int64    `json:"counters"`
	Outcomes    map[string]int64    `json:"outcomes"`
	Samples     []any               `json:"samples"`
	Viols       map[string]*Viol    `json:"viols"`
	Notes       []string            `json:"notes"`
	Caps        []string            `json:"caps"`
	States      int64               `json:"states"`
	Transitions int64               `json:"transitions"`
	Traces      int64               `json:"traces"`
	Flaky       []string            `json:"flaky"`
	FlakyV      map[string]*Viol    `json:"flaky_v"` // first case per signature that did not reproduce when repeated at once
	Facts       map[string][]string `json:"facts"`   // values reported by workers under a key; the driver compares them
	HarnessErr  []string            `json:"harness_err"`
}

func newPart() *Part {
	return &Part{Counters: map[string]int64{}, Outcomes: map[string]int64{}, Viols: map[string]*Viol{}, Facts: map[string][]string{}, FlakyV: map[string]*Viol{}}
}

type Ctx struct {
	Prop    string
	Tier    string
	Shard   int
	NShards int
	Root    string
	Scratch string
	CLI     string
	Src     string
	Self    string
	P       *Part
	seen    map[uint64]struct{}
	driver  bool
}

func (c *Ctx) Thorough() bool { return c.Tier == "thorough" }

func h64(s string) uint64 {
	h := fnv.New64a()
	h.Write([]byte(s))
	return h.Sum64()
}

// Mine decides whether a case identified by an index belongs to this shard.
func (c *Ctx) Mine(i int64) bool { return c.NShards <= 1 || int(i%int64(c.NShards)) == c.Shard }

// Distinct registers a non-trivial case by its canonical text; duplicates (also across shards) are
// not counted twice.
func (c *Ctx) Distinct(key string) {
	h := h64(key)
	if _, ok := c.seen[h]; !ok {
		c.seen[h] = struct{}{}
	}
}

// Fact reports a value under a key; all workers' values are collected (deduplicated) for the driver.
func (c *Ctx) Fact(key, val string) {
	for _, v := range c.P.Facts[key] {
		if v == val {
			return
		}
	}
	c.P.Facts[key] = append(c.P.Facts[key], val)
}

func (c *Ctx) Eval(n int64) { c.P.Evaluations += n }
func (c *Ctx) Count(name string, n int64) {
	if strings.HasPrefix(name, "max:") {
		if n > c.P.Counters[name] {
			c.P.Counters[name] = n
		}
		return
	}
	c.P.Counters[name] += n
}
func (c *Ctx) Outcome(o string) {
	if len(c.P.Outcomes) < 4000 || c.P.Outcomes[o] > 0 {
		c.P.Outcomes[o]++
	}
}
func (c *Ctx) Note(f string, a ...any) {
	s := fmt.Sprintf(f, a...)
	for _, n := range c.P.Notes {
		if n == s {
			return
		}
	}
	if len(c.P.Notes) < 200 {
		c.P.Notes = append(c.P.Notes, s)
	}
}
func (c *Ctx) Cap(f string, a ...any) { c.P.Caps = append(c.P.Caps, fmt.Sprintf(f, a...)) }
func (c *Ctx) Sample(x any) {
	if len(c.P.Samples) < 6 {
		c.P.Samples = append(c.P.Samples, x)
	}
}
func (c *Ctx) HarnessError(f string, a ...any) {
	if len(c.P.HarnessErr) < 50 {
		c.P.HarnessErr = append(c.P.HarnessErr, fmt.Sprintf(f, a...))
	}
}

// Violate records a violation under a signature.  recheck (may be nil) re-executes the case and
// returns true if the violation shows again; it is called 3 times for the first case of a signature
// and a case that does not reproduce every time is reported as flaky (harness error), never as a
// violation.
func (c *Ctx) Violate(sig, what string, rank int64, replay map[string]any, recheck func() bool) {
	v, ok := c.P.Viols[sig]
	if ok {
		v.Count++
		if rank >= v.Rank {
			return
		}
	}
	if recheck != nil {
		for i := 0; i < 3; i++ {
			if !recheck() {
				c.P.Flaky = append(c.P.Flaky, sig+": "+what)
				if c.P.FlakyV[sig] == nil {
					c.P.FlakyV[sig] = &Viol{Sig: sig, Count: 1, What: what, Replay: replay, Rank: rank}
				}
				return
			}
		}
	}
	if !ok {
		v = &Viol{Sig: sig, Count: 1}
		c.P.Viols[sig] = v
	}
	v.What, v.Rank, v.Replay = what, rank, replay
}

// ---------------------------------------------------------------------------------------------

func verifMain() int {
	mode := os.Getenv("VERIF_MODE")
	c := &Ctx{
		Prop: os.Getenv("VERIF_PROP"), Tier: os.Getenv("VERIF_TIER"),
		Root: os.Getenv("VERIF_ROOT"), Scratch: os.Getenv("VERIF_SCRATCH"),
		CLI: os.Getenv("VERIF_CLI"), Src: os.Getenv("VERIF_SRC"),
		P: newPart(), seen: map[uint64]struct{}{},
	}
	c.Self, _ = os.Executable()
	if c.Tier != "thorough" {
		c.Tier = "quick"
	}
	switch mode {
	case "check":
		return runDriver(c)
	case "worker":
		return runWorker(c)
	case "replay":
		return runReplay(c, os.Getenv("VERIF_REPLAY"))
	case "probe":
		return probeMain()
	case "dumpvocab":
		return dumpVocab()
	}
	fmt.Fprintln(os.Stderr, "unknown VERIF_MODE", mode)
	return 2
}

func runWorker(c *Ctx) int {
	def := registry[c.Prop]
	if def == nil {
		fmt.Fprintln(os.Stderr, "unknown property", c.Prop)
		return 2
	}
	c.Shard, _ = strconv.Atoi(os.Getenv("VERIF_SHARD"))
	c.NShards, _ = strconv.Atoi(os.Getenv("VERIF_NSHARDS"))
	c.Scratch = filepath.Join(c.Scratch, fmt.Sprintf("w%d", c.Shard))
	os.MkdirAll(c.Scratch, 0o755)
	tw := time.Now()
	def.Run(c)
	c.Count("max:worker_wall_ms", time.Since(tw).Milliseconds())
	c.Count("sum_worker_wall_ms", time.Since(tw).Milliseconds())
	// distinct hashes: sorted binary file merged by the driver
	hs := make([]uint64, 0, len(c.seen))
	for h := range c.seen {
		hs = append(hs, h)
	}
	sort.Slice(hs, func(i, j int) bool { return hs[i] < hs[j] })
	buf := make([]byte, 8*len(hs))
	for i, h := range hs {
		binary.LittleEndian.PutUint64(buf[8*i:], h)
	}
	base := filepath.Dir(c.Scratch)
	if err := os.WriteFile(filepath.Join(base, fmt.Sprintf("seen_%d.bin", c.Shard)), buf, 0o644); err != nil {
		fmt.Fprintln(os.Stderr, err)
		return 2
	}
	b, _ := json.Marshal(c.P)
	if err := os.WriteFile(filepath.Join(base, fmt.Sprintf("part_%d.json", c.Shard)), b, 0o644); err != nil {
		fmt.Fprintln(os.Stderr, err)
		return 2
	}
	return 0
}

func nproc() int {
	if s := os.Getenv("VERIF_NPROC"); s != "" {
		if n, err := strconv.Atoi(s); err == nil && n > 0 {
			return n
		}
	}
	out, err := exec.Command("nproc").Output()
	if err == nil {
		if n, err := strconv.Atoi(strings.TrimSpace(string(out))); err == nil && n > 0 {
			return n
		}
	}
	return 4
}

type knownFinding struct {
	Prop string
	Re   *regexp.Regexp
	What string
	Seen bool
}

func loadKnown(root, prop string) ([]*knownFinding, error) {
	b, err := os.ReadFile(filepath.Join(root, "KNOWN_FINDINGS.txt"))
	if err != nil {
		if os.IsNotExist(err) {
			return nil, nil
		}
		return nil, err
	}
	var out []*knownFinding
	for _, ln := range strings.Split(string(b), "\n") {
		ln = strings.TrimSpace(ln)
		if !strings.HasPrefix(ln, "finding:") {
			continue // "fixed:" lines and comments suppress nothing
		}
		rest := strings.TrimSpace(strings.TrimPrefix(ln, "finding:"))
		parts := strings.Split(rest, " :: ")
		if len(parts) < 2 {
			return nil, fmt.Errorf("KNOWN_FINDINGS.txt: malformed line %q", ln)
		}
		head := strings.Fields(parts[0])
		kf := &knownFinding{What: strings.TrimSpace(parts[1])}
		for _, h := range head {
			if strings.HasPrefix(h, "property=") {
				kf.Prop = strings.TrimPrefix(h, "property=")
			}
			if strings.HasPrefix(h, "sig=") {
				re, err := regexp.Compile("^(?:" + strings.TrimPrefix(h, "sig=") + ")$")
				if err != nil {
					return nil, fmt.Errorf("KNOWN_FINDINGS.txt: %v", err)
				}
				kf.Re = re
			}
		}
		if kf.Prop == prop && kf.Re != nil {
			out = append(out, kf)
		}
	}
	return out, nil
}

func runDriver(c *Ctx) int {
	t0 := time.Now()
	def := registry[c.Prop]
	if def == nil {
		fmt.Println("HARNESS-ERROR: unknown property", c.Prop)
		return 2
	}
	c.driver = true
	n := def.Workers
	if n <= 0 {
		n = nproc()
	}
	os.MkdirAll(c.Scratch, 0o755)
	type res struct {
		i   int
		err error
		out []byte
	}
	ch := make(chan res, n)
	for i := 0; i < n; i++ {
		go func(i int) {
			runtime.LockOSThread() // Pdeathsig is tied to the forking thread: keep it alive while the worker runs
			cmd := exec.Command(c.Self)
			cmd.SysProcAttr = &syscall.SysProcAttr{Pdeathsig: syscall.SIGKILL} // no orphaned workers if the driver is killed
			cmd.Env = append(os.Environ(), "VERIF_MODE=worker", fmt.Sprintf("VERIF_SHARD=%d", i), fmt.Sprintf("VERIF_NSHARDS=%d", n), "GOMAXPROCS=2", "GOMEMLIMIT=3GiB")
			out, err := cmd.CombinedOutput()
			ch <- res{i, err, out}
		}(i)
	}
	bad := false
	for i := 0; i < n; i++ {
		r := <-ch
		if r.err != nil {
			bad = true
			tail := string(r.out)
			if len(tail) > 4000 {
				tail = tail[len(tail)-4000:]
			}
			fmt.Printf("HARNESS-ERROR: worker %d: %v\n%s\n", r.i, r.err, tail)
		} else if len(r.out) > 0 && os.Getenv("VERIF_VERBOSE") != "" {
			fmt.Printf("worker %d: %s\n", r.i, r.out)
		}
	}
	if bad {
		return 2
	}
	m := newPart()
	var all []uint64
	parts := make([]Part, n)
	for i := 0; i < n; i++ {
		b, err := os.ReadFile(filepath.Join(c.Scratch, fmt.Sprintf("part_%d.json", i)))
		if err != nil {
			fmt.Println("HARNESS-ERROR:", err)
			return 2
		}
		if err := json.Unmarshal(b, &parts[i]); err != nil {
			fmt.Println("HARNESS-ERROR:", err)
			return 2
		}
	}
	// second complete runs of the shards that saw a non-repeating violation: all at once
	type rr struct {
		p   *Part
		err error
	}
	reruns := map[int]chan rr{}
	for i := 0; i < n; i++ {
		if len(parts[i].FlakyV) > 0 {
			ch := make(chan rr, 1)
			reruns[i] = ch
			go func(i int) { p2, err := rerunShard(c, i, n); ch <- rr{p2, err} }(i)
		}
	}
	for i := 0; i < n; i++ {
		p := parts[i]
		if len(p.FlakyV) > 0 {
			// A case violated the oracle but did not do so again when it was repeated at once in the same process.
			// The harness makes no random choice, so either the program under test carries state from one line to
			// the next (then the whole deterministic enumeration of this shard, run again in a fresh process, hits
			// the same case in the same state and shows the same signature again) or something is really
			// nondeterministic (then it does not).  Only the first is reported as a violation.
			r2 := <-reruns[i]
			p2, err := r2.p, r2.err
			if err != nil {
				fmt.Println("HARNESS-ERROR: re-running shard", i, ":", err)
				return 2
			}
			p.Flaky = nil
			for sig, v := range p.FlakyV {
				if _, again := p2.FlakyV[sig]; again {
					hs := "history-dependent:" + sig
					v.Sig = hs
					v.What = "the result for this case depends on what the process handled before (it violates the oracle when first met, not when repeated at once; a second complete run of shard " + fmt.Sprintf("%d/%d", i, n) + " in a fresh process showed the same): " + v.What
					if v.Replay == nil {
						v.Replay = map[string]any{}
					}
					v.Replay["history_dependent"] = fmt.Sprintf("re-run the check: the case is met in the same state by the deterministic enumeration of shard %d/%d", i, n)
					p.Viols[hs] = v
				} else if _, firm := p2.Viols[sig]; firm {
					p.Viols[sig] = v
				} else {
					p.Flaky = append(p.Flaky, sig+": "+v.What)
				}
			}
		}
		mergePart(m, &p)
		sb, _ := os.ReadFile(filepath.Join(c.Scratch, fmt.Sprintf("seen_%d.bin", i)))
		for k := 0; k+8 <= len(sb); k += 8 {
			all = append(all, binary.LittleEndian.Uint64(sb[k:]))
		}
	}
	sort.Slice(all, func(i, j int) bool { return all[i] < all[j] })
	var distinct int64
	for i := range all {
		if i == 0 || all[i] != all[i-1] {
			distinct++
		}
	}
	m.Distinct = distinct
	c.P = m
	if def.Post != nil {
		def.Post(c, m)
	}
	return finish(c, def, m, time.Since(t0))
}

// rerunShard runs one shard worker again in a fresh process with its own scratch directory and returns its part.
func rerunShard(c *Ctx, i, n int) (*Part, error) {
	scr := filepath.Join(c.Scratch, "rerun", fmt.Sprint(i))
	os.MkdirAll(scr, 0o755)
	cmd := exec.Command(c.Self)
	cmd.SysProcAttr = &syscall.SysProcAttr{Pdeathsig: syscall.SIGKILL}
	cmd.Env = append(os.Environ(), "VERIF_MODE=worker", "VERIF_SCRATCH="+scr, fmt.Sprintf("VERIF_SHARD=%d", i), fmt.Sprintf("VERIF_NSHARDS=%d", n), "GOMAXPROCS=2", "GOMEMLIMIT=3GiB")
	if out, err := cmd.CombinedOutput(); err != nil {
		return nil, fmt.Errorf("%v: %s", err, trunc(string(out), 2000))
	}
	b, err := os.ReadFile(filepath.Join(scr, fmt.Sprintf("part_%d.json", i)))
	if err != nil {
		return nil, err
	}
	var p Part
	if err := json.Unmarshal(b, &p); err != nil {
		return nil, err
	}
	return &p, nil
}

func mergePart(m, p *Part) {
	m.Evaluations += p.Evaluations
	m.States += p.States
	m.Transitions += p.Transitions
	m.Traces += p.Traces
	for k, v := range p.Counters {
		if strings.HasPrefix(k, "max:") {
			if v > m.Counters[k] {
				m.Counters[k] = v
			}
		} else {
			m.Counters[k] += v
		}
	}
	for k, v := range p.Outcomes {
		m.Outcomes[k] += v
	}
	for _, s := range p.Samples {
		if len(m.Samples) < 8 {
			m.Samples = append(m.Samples, s)
		}
	}
	for _, s := range p.Notes {
		dup := false
		for _, t := range m.Notes {
			if t == s {
				dup = true
			}
		}
		if !dup {
			m.Notes = append(m.Notes, s)
		}
	}
	for _, s := range p.Caps {
		dup := false
		for _, t := range m.Caps {
			if t == s {
				dup = true
			}
		}
		if !dup {
			m.Caps = append(m.Caps, s)
		}
	}
	m.Flaky = append(m.Flaky, p.Flaky...)
	for k, vs := range p.Facts {
		for _, v := range vs {
			dup := false
			for _, t := range m.Facts[k] {
				if t == v {
					dup = true
				}
			}
			if !dup {
				m.Facts[k] = append(m.Facts[k], v)
			}
		}
	}
	m.HarnessErr = append(m.HarnessErr, p.HarnessErr...)
	for sig, v := range p.Viols {
		if o, ok := m.Viols[sig]; ok {
			o.Count += v.Count
			if v.Rank < o.Rank {
				o.Rank, o.What, o.Replay = v.Rank, v.What, v.Replay
			}
		} else {
			cp := *v
			m.Viols[sig] = &cp
		}
	}
}

var sigSan = regexp.MustCompile(`[^A-Za-z0-9_.$@=+-]+`)

func finish(c *Ctx, def *PropDef, m *Part, wall time.Duration) int {
	if len(m.HarnessErr) > 0 || len(m.Flaky) > 0 {
		for _, e := range m.HarnessErr {
			fmt.Println("HARNESS-ERROR:", e)
		}
		for _, e := range m.Flaky {
			fmt.Println("HARNESS-ERROR: not reproducible:", e)
		}
		return 2
	}
	known, err := loadKnown(c.Root, c.Prop)
	if err != nil {
		fmt.Println("HARNESS-ERROR:", err)
		return 2
	}
	sigs := make([]string, 0, len(m.Viols))
	for s := range m.Viols {
		sigs = append(sigs, s)
	}
	sort.Strings(sigs)
	var newViol []string
	knownSeen := map[string][]string{}
	for _, s := range sigs {
		matched := false
		for _, k := range known {
			if k.Re.MatchString(s) {
				k.Seen = true
				matched = true
				knownSeen[k.What] = append(knownSeen[k.What], s)
				break
			}
		}
		if !matched {
			newViol = append(newViol, s)
		}
	}
	for _, k := range known {
		if k.Seen {
			fmt.Printf("KNOWN-FINDING: property=%s %s\n", c.Prop, k.What)
		}
	}
	repDir := filepath.Join(c.Root, "replays", c.Prop)
	if d := os.Getenv("VERIF_REPLAY_DIR"); d != "" {
		repDir = filepath.Join(d, c.Prop) // mutant / seed runs keep their artefacts out of /verif
	}
	var vlist []map[string]any
	for i, s := range newViol {
		v := m.Viols[s]
		os.MkdirAll(repDir, 0o755)
		name := sigSan.ReplaceAllString(s, "_")
		if len(name) > 120 {
			name = name[:120] + fmt.Sprintf("_%x", h64(s)&0xffffff)
		}
		path := filepath.Join(repDir, name+".json")
		rep := map[string]any{"property": c.Prop, "signature": s, "what": v.What, "cases_with_this_signature": v.Count, "tier": c.Tier, "replay": v.Replay}
		b, _ := json.MarshalIndent(rep, "", " ")
		os.WriteFile(path, b, 0o644)
		if i < 40 {
			fmt.Printf("VIOLATION property=%s replay=%s\n", c.Prop, path)
			fmt.Printf("  signature: %s (%d cases)\n  %s\n", s, v.Count, trunc(v.What, 400))
		}
		if len(vlist) < 50 {
			vlist = append(vlist, map[string]any{"signature": s, "cases": v.Count, "what": v.What})
		}
	}
	if len(newViol) > 40 {
		fmt.Printf("  … %d more violation signatures, see %s\n", len(newViol)-40, repDir)
	}
	// evidence
	cov := map[string]any{
		"evaluations":          m.Evaluations,
		"distinct_nontrivial":  m.Distinct,
		"rule":                 def.Rule,
		"samples":              m.Samples,
		"exhaustive":           len(m.Caps) == 0,
		"counters":             m.Counters,
		"distinct_outcomes":    len(m.Outcomes),
		"caps_hit":             m.Caps,
		"notes":                m.Notes,
		"violation_signatures": vlist,
		"known_findings_seen":  knownSeen,
		"workers": func() int {
			if def.Workers > 0 {
				return def.Workers
			}
			return nproc()
		}(),
	}
	if len(m.Outcomes) <= 40 {
		cov["outcomes"] = m.Outcomes
	}
	if def.Level == "model_checking" {
		cov["states"] = m.States
		cov["transitions"] = m.Transitions
		cov["traces_validated_against_impl"] = m.Traces
	}
	if len(m.Samples) == 0 {
		// a run in which every case violates records its samples from the violating cases
		for _, sg := range sigs {
			if len(m.Samples) < 4 {
				m.Samples = append(m.Samples, map[string]any{"violating_case": m.Viols[sg].Replay, "signature": sg})
			}
		}
		cov["samples"] = m.Samples
	}
	if len(m.Samples) == 0 {
		fmt.Println("HARNESS-ERROR: the check recorded no sample case")
		return 2
	}
	seed, _ := strconv.Atoi(os.Getenv("VERIF_SEED"))
	ev := map[string]any{
		"property_id": c.Prop,
		"tier":        c.Tier,
		"seed":        seed,
		"level":       def.Level,
		"coverage":    cov,
		"assumptions": append([]string{"no random choice is made: the seed is recorded but unused"}, def.Assumptions...),
		"wall_s":      float64(int(wall.Seconds()*100)) / 100,
		"violations":  len(newViol),
	}
	b, _ := json.MarshalIndent(ev, "", " ")
	evDir := filepath.Join(c.Root, "evidence")
	if d := os.Getenv("VERIF_EVIDENCE_DIR"); d != "" {
		evDir = d
	}
	os.MkdirAll(evDir, 0o755)
	if err := os.WriteFile(filepath.Join(evDir, c.Prop+".json"), b, 0o644); err != nil {
		fmt.Println("HARNESS-ERROR:", err)
		return 2
	}
	fmt.Printf("%s %s: evaluations=%d distinct_nontrivial=%d outcomes=%d violations=%d known=%d wall=%.1fs exhaustive=%v\n",
		c.Prop, c.Tier, m.Evaluations, m.Distinct, len(m.Outcomes), len(newViol), len(knownSeen), wall.Seconds(), len(m.Caps) == 0)
	if len(newViol) > 0 {
		return 1
	}
	return 0
}

func runReplay(c *Ctx, path string) int {
	b, err := os.ReadFile(path)
	if err != nil {
		fmt.Println("HARNESS-ERROR:", err)
		return 2
	}
	var rep struct {
		Property string         `json:"property"`
		Replay   map[string]any `json:"replay"`
		Tier     string         `json:"tier"`
	}
	if err := json.Unmarshal(b, &rep); err != nil {
		fmt.Println("HARNESS-ERROR:", err)
		return 2
	}
	def := registry[rep.Property]
	if def == nil {
		fmt.Println("HARNESS-ERROR: unknown property", rep.Property)
		return 2
	}
	c.Prop, c.Tier, c.NShards = rep.Property, rep.Tier, 1
	os.MkdirAll(c.Scratch, 0o755)
	fmt.Printf("replaying %s (property %s) on the current tree\n", path, rep.Property)
	reproduced := false
	if def.Replay != nil {
		reproduced = def.Replay(c, rep.Replay)
	} else if h, r := genericReplay(c, rep.Property, rep.Replay); h {
		reproduced = r
	} else if h, r := specificReplay(c, rep.Property, rep.Replay); h {
		reproduced = r
	} else {
		fmt.Println("this record has no single-case replay (it describes a whole run: corpus comparison, digests or a device test); re-run the check to reproduce it:  bin/check", rep.Property, rep.Tier)
		return 2
	}
	if reproduced {
		fmt.Printf("VIOLATION property=%s replay=%s\n", rep.Property, path)
		return 1
	}
	fmt.Println("replay: the recorded case does not violate the property on this tree")
	return 0
}
