//go:build verif

package main

// C12 — namespace pseudonymisation is complete, consistent and confined.

import (
	"fmt"
	"strings"
)

type c12Names struct {
	db, coll string
	aux      []string
	tag      string
}

var c12NameSets = []c12Names{
	{"dbZq1", "coQx7", []string{"auxKq1", "auxKq2", "auxKq3", "auxKq4"}, "ascii"},
	{"дбЖщ1", "コレク7", []string{"auxKq1", "ßtraße2", "auxKq3", "auxKq4"}, "unicode"},
	{"dbZq1", "sysQw.bktQe.coQx7", []string{"auxKq1.partQ", "auxKq2", "auxKq3", "auxKq4"}, "dotted-collection"},
	{"shopQ", "shopQ2", []string{"shopQ23", "shop", "auxKq3", "auxKq4"}, "prefixes-of-each-other"},
	{"db-with space", "co\"quote\\", []string{"aux/slash", "auxKq2", "auxKq3", "auxKq4"}, "escapes"},
	// names shaped like the tool's own pseudonyms under each replacement text of the flag sets (<replacement>_…)
	{"REDACTED_ledgerQ", "REDACTED_0123456789abcdef", []string{customReplacement + "_archQ", "x_2024Q", "REDACTED_Qq", "_leadingQ"}, "pseudonym-shaped"},
}

// expected pseudonym of a namespace value: component-wise, via the tool's own pseudonym function
// (C13 decides that this function depends only on the component and the replacement text)
func c12Expect(name string) string { return HashName(name) }

type c12Finding struct {
	oracle string
	node   *LNode
	detail string
}

// c12Eval evaluates one line: outW / outN are the outputs with and without --redactNamespaces.
func c12Eval(sc *sweepCase, names []string, fl Flags, outW, outN string, dict map[string]string) []c12Finding {
	var fs []c12Finding
	jw, e1 := ParseJSON([]byte(outW))
	jn, e2 := ParseJSON([]byte(outN))
	if e1 != nil || e2 != nil {
		return nil
	}
	isNS := map[*LNode]bool{}
	for _, n := range sc.C.NSNodes {
		isNS[n] = true
		o := follow(jw, sc.Path(n))
		if o == nil || o.Kind != JStr {
			continue // shape change: C03
		}
		want := c12Expect(n.Str)
		switch {
		case o.Str == n.Str:
			fs = append(fs, c12Finding{"ns-leak", n, "the name is emitted unchanged"})
		case o.Str == fl.Replacement():
			fs = append(fs, c12Finding{"ns-generic", n, "the generic placeholder stands where the pseudonym " + want + " belongs"})
		case o.Str != want:
			fs = append(fs, c12Finding{"ns-inconsistent", n, fmt.Sprintf("%q is emitted, the pseudonym of this name elsewhere is %q", o.Str, want)})
		default:
			if prev, ok := dict[n.Str]; ok && prev != o.Str {
				fs = append(fs, c12Finding{"ns-inconsistent", n, fmt.Sprintf("%q here, %q on an earlier line", o.Str, prev)})
			}
			dict[n.Str] = o.Str
		}
	}
	// (a) absence of every planted name component anywhere in the line
	for _, nm := range names {
		if nm == "" || strings.HasPrefix(nm, "$") {
			continue
		}
		if strings.Contains(outW, jsonInner(nm)) {
			// attribute it to an NS node holding that name if one leaks, else to the whole line
			attributed := false
			for _, f := range fs {
				if f.oracle == "ns-leak" && strings.Contains(f.node.Str, nm) {
					attributed = true
				}
			}
			if !attributed {
				fs = append(fs, c12Finding{"ns-leak-elsewhere", nil, fmt.Sprintf("the name %q still occurs in the emitted line", nm)})
			}
		}
	}
	// (c) confinement: with and without the flag the outputs differ only at NS positions
	var walk func(in *LNode, a, b *JNode, path []string)
	walk = func(in *LNode, a, b *JNode, path []string) {
		if isNS[in] {
			return
		}
		if a.Kind != b.Kind || len(a.Kids) != len(b.Kids) {
			fs = append(fs, c12Finding{"ns-confinement", in, "the flag changes the shape at " + strings.Join(path, ".")})
			return
		}
		switch a.Kind {
		case JStr:
			if a.Str != b.Str {
				fs = append(fs, c12Finding{"ns-confinement", in, fmt.Sprintf("a position that names no namespace differs between the two runs: %q vs %q", trunc(a.Str, 40), trunc(b.Str, 40))})
			}
		case JNum:
			if a.Num != b.Num {
				fs = append(fs, c12Finding{"ns-confinement", in, "a number differs between the two runs"})
			}
		case JBool:
			if a.Bool != b.Bool {
				fs = append(fs, c12Finding{"ns-confinement", in, "a boolean differs between the two runs"})
			}
		case JObj, JArr:
			if in.Kind != a.Kind || len(in.Kids) != len(a.Kids) {
				return
			}
			for i := range a.Kids {
				seg := "[]"
				if a.Kind == JObj {
					seg = a.Keys[i]
					if a.Keys[i] != b.Keys[i] {
						fs = append(fs, c12Finding{"ns-confinement", in.Kids[i], "a key differs between the two runs"})
						continue
					}
				}
				walk(in.Kids[i], a.Kids[i], b.Kids[i], append(path, seg))
			}
		}
	}
	walk(sc.C.Root, jw, jn, nil)
	return fs
}

// jsonInner: the text of a string as it appears inside a JSON string literal produced by Go
func jsonInner(s string) string {
	var sb strings.Builder
	jsonQuote(&sb, s, 0)
	t := sb.String()
	return t[1 : len(t)-1]
}

func splitComponents(names ...string) []string {
	var out []string
	for _, n := range names {
		out = append(out, strings.Split(n, ".")...)
	}
	return out
}

// c12Stages: every namespace-bearing stage form, with the NS nodes registered.
func c12Stage(g *Gen, form int) *LNode {
	inner := func() *LNode { return LA(LO("$match", LO(g.Fn(), g.sec()))) }
	switch form {
	case 0:
		return LO("$lookup", LO("from", g.auxColl(), "localField", LS("a").DC(), "foreignField", LS("b").DC(), "as", LS("j").DC()))
	case 1:
		return LO("$lookup", LO("from", g.auxColl(), "let", LO(), "pipeline", inner(), "as", LS("j").DC()))
	case 2:
		return LO("$graphLookup", LO("from", g.auxColl(), "startWith", g.ref(), "connectFromField", LS("a").DC(), "connectToField", LS("b").DC(), "as", LS("j").DC()))
	case 3:
		return LO("$unionWith", g.auxColl())
	case 4:
		return LO("$unionWith", LO("coll", g.auxColl(), "pipeline", inner()))
	case 5:
		return LO("$merge", g.auxColl())
	case 6:
		return LO("$merge", LO("into", g.auxColl(), "whenMatched", LS("replace").DC()))
	case 7:
		return LO("$merge", LO("into", LO("db", g.ns("db", g.o.DB), "coll", g.auxColl()), "on", LS("_id").DC()))
	case 8:
		return LO("$out", g.auxColl())
	case 9:
		return LO("$out", LO("db", g.ns("db", g.o.DB), "coll", g.auxColl()))
	case 10:
		// a time-series target (MongoDB 7.0.3+): members that are not strings next to the names
		return LO("$out", LO("db", g.ns("db", g.o.DB), "coll", g.auxColl(), "timeseries", LO("timeField", LS("ts").DC(), "metaField", LS("meta").DC(), "bucketMaxSpanSeconds", LN("3600").DC())))
	case 11:
		return LO("$lookup", LO("from", LO("db", g.ns("db", g.o.DB), "coll", g.auxColl()), "localField", LS("a").DC(), "foreignField", LS("b").DC(), "as", LS("j").DC()))
	case 12:
		return LO("$merge", LO("into", LO("db", g.ns("db", g.o.DB), "coll", g.auxColl()), "on", LA(LS("_id").DC(), LS("k").DC()), "let", LO("v", g.sec()), "whenMatched", LA(LO("$set", LO(g.Fn(), g.sec()))), "whenNotMatched", LS("insert").DC()))
	case 13:
		return LO("$out", LO("coll", g.auxColl(), "db", g.ns("db", g.o.DB)))
	case 14:
		// the members of a namespace document in other orders, with other members in front and in between
		return LO("$merge", LO("into", LO("coll", g.auxColl(), "db", g.ns("db", g.o.DB)), "on", LS("_id").DC()))
	case 15:
		return LO("$lookup", LO("localField", LS("a").DC(), "from", LO("coll", g.auxColl(), "db", g.ns("db", g.o.DB)), "foreignField", LS("b").DC(), "as", LS("j").DC()))
	case 16:
		return LO("$out", LO("timeseries", LO("timeField", LS("ts").DC()), "coll", g.auxColl(), "db", g.ns("db", g.o.DB)))
	default:
		return LO("$unionWith", LO("pipeline", inner(), "coll", g.auxColl()))
	}
}

const c12Forms = 18

var c12FormNames = []string{"$lookup(localField)", "$lookup(pipeline)", "$graphLookup", "$unionWith(string)", "$unionWith(doc)", "$merge(string)", "$merge(into string)", "$merge(into doc)", "$out(string)", "$out(doc)", "$out(doc+timeseries)", "$lookup(from doc)", "$merge(into doc + let + pipeline)", "$out(doc, coll first)", "$merge(into doc, coll first)", "$lookup(from doc, coll first, after localField)", "$out(doc, timeseries first, coll before db)", "$unionWith(doc, pipeline first)"}

// c12GenStageCase: an aggregate line whose pipeline holds one namespace-bearing stage at a nesting
// depth 0..3 under $facet / $lookup.pipeline / $unionWith.pipeline, in every container and gate.
func c12GenStageCase(x *X, o GenOpts) *Case {
	g := &Gen{x: x, o: o}
	form := x.Free(c12Forms, "namespace-bearing stage")
	depth := x.Free(4, "nesting depth")
	pipe := LA(LO("$match", LO(g.Fn(), g.sec())), c12Stage(g, form))
	for d := 0; d < depth; d++ {
		switch x.Free(3, "nesting wrapper") {
		case 0:
			pipe = LA(LO("$facet", LO("f1", pipe)))
		case 1:
			pipe = LA(LO("$lookup", LO("from", g.auxColl(), "pipeline", pipe, "as", LS("j").DC())))
		default:
			pipe = LA(LO("$unionWith", LO("coll", g.auxColl(), "pipeline", pipe)))
		}
	}
	cmd := g.tail(LO("aggregate", g.coll(), "pipeline", pipe, "cursor", LO().Keep()))
	propagateLabels(cmd)
	gate := x.Free(4, "gate")
	container := x.Free(nContainers, "container")
	c := g.buildCase(4, cmd, gate, container)
	c.SlotName = fmt.Sprintf("aggregate %s at depth %d", c12FormNames[form], depth)
	return c
}

func c12Run(c *Ctx) {
	dict := map[string]string{}
	reps := []Flags{{}, {R: customReplacement}, {R: "x"}}
	check := func(sc *sweepCase, ns c12Names) {
		names := splitComponents(ns.db, ns.coll)
		for _, a := range ns.aux {
			names = append(names, strings.Split(a, ".")...)
		}
		// only names actually planted in this line
		var planted []string
		for _, nm := range names {
			for _, n := range sc.C.NSNodes {
				for _, comp := range strings.Split(n.Str, ".") {
					if comp == nm {
						planted = append(planted, nm)
					}
				}
			}
		}
		fsets := []Flags{{W: true}, {W: true, N: true, B: true, I: true}}
		if sc.Layer == "L0" || sc.Layer == "stages" {
			// the namespace flag next to each other mode
			fsets = append(fsets, Flags{W: true, F: []string{ns.db}}, Flags{W: true, Y: true}, Flags{W: true, Z: "^(fld|status)$"})
		}
		for ri, r := range reps {
			if ri > 0 && sc.Layer != "stages" && sc.Layer != "L0" {
				break
			}
			for _, f0 := range fsets {
				fl := f0
				fl.R, fl.REmpty = r.R, r.REmpty
				fl.Apply()
				outW, okW, pvW := redactLine(sc.Line)
				fn := fl
				fn.W = false
				fn.Apply()
				outN, okN, pvN := redactLine(sc.Line)
				fl.Apply() // HashName below must see the same replacement
				c.Eval(2)
				if pvW != nil || pvN != nil || !okW || !okN {
					c.Count("skipped_panics_or_rejected", 1)
					continue
				}
				key := fl.Replacement() + "|"
				d := map[string]string{}
				for k, v := range dict {
					if strings.HasPrefix(k, key) {
						d[strings.TrimPrefix(k, key)] = v
					}
				}
				fs := c12Eval(sc, planted, fl, outW, outN, d)
				for k, v := range d {
					dict[key+k] = v
				}
				if len(fs) == 0 {
					c.Outcome("pseudonymised")
					continue
				}
				c.Outcome("finding")
				for _, f := range fs {
					loc := "line"
					if f.node != nil {
						if p := sigPath(sc.C.Cmd, f.node); p != "" {
							loc = nsLoc(p)
						} else {
							loc = nsLoc(sigPath(sc.C.Root, f.node))
						}
					}
					cont := []string{"", "@originatingCommand", "@cmd", "@cmd-without-ns", "@command+cmd", "@command+originatingCommand+cmd"}[sc.C.Container]
					sig := f.oracle + ":" + loc
					if f.oracle == "ns-leak" && loc == "attr.ns" {
						sig += cont
					}
					line, oracle, node := sc.Line, f.oracle, f.node
					c.Violate(sig, fmt.Sprintf("%s: %s; %s; names %s; flags [%s]; input: %s | output: %s", f.oracle, f.detail, sc.C.SlotName, ns.tag, fl, trunc(line, 500), trunc(outW, 500)), int64(len(line)),
						map[string]any{"kind": "namespace", "layer": sc.Layer, "choices": sc.Trace, "names": ns.tag, "flags": fl.String(), "input": line, "output": outW},
						func() bool {
							fl.Apply()
							a, _, _ := redactLine(line)
							fn.Apply()
							b, _, _ := redactLine(line)
							fl.Apply()
							for _, f2 := range c12Eval(sc, planted, fl, a, b, map[string]string{}) {
								if f2.oracle == oracle && f2.node == node {
									return true
								}
							}
							return false
						})
				}
			}
		}
	}
	for ni, ns := range c12NameSets {
		if ni > 0 && !c.Thorough() && ni != 2 && ni != 3 && ni != 5 {
			continue
		}
		o := GenOpts{DB: ns.db, Coll: ns.coll, AuxColls: ns.aux, LeafSet: 2}
		// (1) G: every verb / slot x gate x container, and <=1 non-default production
		layers := []sweepLayer{{"L0", o, 0, nil}}
		if ni == 0 {
			o1 := o
			o1.OneGate = true
			layers = append(layers, sweepLayer{"L1", o1, 1, nil})
		}
		sweep(c, layers, func(sc *sweepCase) bool {
			if !sc.C.InClaim || sc.C.SlotName == "distinct.query" {
				return false // `distinct` is not among the verbs the property lists
			}
			c.Distinct(sc.Line)
			check(sc, ns)
			return false
		}, nil)
		// (2) namespace-bearing stages at depth 0..3
		var cur *Case
		Explore(func(x *X) { cur = c12GenStageCase(x, o) }, ExploreOpts{Bound: -1, ShardDepth: 3, Shard: c.Shard, NShards: c.NShards}, func(x *X) {
			sc := &sweepCase{C: cur, Line: cur.Root.JSON(), Layer: "stages", Trace: x.Trace()}
			c.Distinct(sc.Line)
			c.Count("stage_cases", 1)
			check(sc, ns)
			if c.Shard == 0 && len(c.P.Samples) < 3 {
				c.Sample(map[string]any{"case": cur.SlotName, "line": trunc(sc.Line, 900)})
			}
		})
		// (3) other components that carry attr.ns
		if c.Shard == 0 {
			for ci, comp := range []string{"NETWORK", "STORAGE", "INDEX", "SHARDING", "COMMAND", "COMMAND", "COMMAND", "QUERY", "WRITE", "COMMAND"} {
				g := &Gen{o: o}
				nsNode := g.ns("dbcoll", ns.db+"."+ns.coll)
				root := LO("t", LO("$date", LS("2024-05-01T10:00:00.123+00:00")), "s", LS("I"), "c", LS(comp), "id", LN("20320"), "ctx", LS("conn3"), "msg", LS("createCollection"),
					"attr", LO("ns", nsNode, "uuidDisposition", LS("generated"), "options", LO()))
				if ci >= 4 {
					// command-class lines whose attr.command is not a document (a command name, null, a number, an
					// array, nothing at all): attr.ns is a namespace all the same
					root.Get("msg").Str = "Slow query"
					attr := root.Get("attr")
					switch ci {
					case 4:
						attr.Add("command", LS("find"))
					case 5:
						attr.Add("command", LNul())
					case 6:
						attr.Add("command", LN("7"))
					case 7:
						attr.Add("command", LA(LS("x")))
					case 8:
						attr.Add("cmd", LS("update"))
					default:
						attr.Add("originatingCommand", LNul())
					}
				}
				resolveLabels(root, false, true)
				sc := &sweepCase{C: &Case{Root: root, Cmd: root, NSNodes: g.nsNodes, SlotName: comp + " line with attr.ns"}, Line: root.JSON(), Layer: "other-component"}
				c.Distinct(sc.Line)
				check(sc, ns)
			}
		}
	}
	Flags{}.Apply()
	// state carried from line to line (a shared list of namespace-bearing keys, a remembered database): sequences of
	// twin lines in one process
	wordsInOtherRoles(c, "C12")
	twinHistories(c, "C12", []Flags{{W: true}, {W: true, N: true, B: true, I: true, R: "<x>", F: []string{"shop"}}, {W: true, Y: true}})
}

// nsLoc: signature location of a namespace position: keeps the operator names, drops facet names
func nsLoc(p string) string {
	segs := strings.Split(strings.ReplaceAll(p, "[]", ""), ".")
	var out []string
	for _, s := range segs {
		if s == "f1" || s == "facetOne" || s == "facetA" || s == "facetB" || s == "pOne" || s == "p1" || s == "<f>" {
			continue
		}
		out = append(out, s)
	}
	if len(out) > 5 {
		out = append(out[:2], append([]string{"…"}, out[len(out)-2:]...)...)
	}
	return strings.Join(out, ".")
}

func init() {
	register(&PropDef{
		ID: "C12", Level: "exploration",
		Rule:        "with --redactNamespaces on (x {N,B,I on/off} x 3 replacement texts) and, for comparison, off: (1) G at 0 deviations: every declared verb / slot x 4 gates x 6 containers (command, originatingCommand next to getMore, cmd of an error report with and without attr.ns), and <=1 non-default production; (2) every namespace-bearing stage form ($lookup both forms, $graphLookup, $unionWith string / document, $merge string / into string / into {db,coll}, $out string / {db,coll}) at nesting depth 0..3 under every combination of $facet / $lookup.pipeline / $unionWith.pipeline x gates x containers; (3) lines of other components with attr.ns; name sets: ASCII, Unicode, dotted collection names, names that are prefixes of each other, names needing JSON escapes. Oracles: (a) no planted name component occurs anywhere in the emitted line; (b) every namespace position holds the component-wise pseudonym of its name, the same in all fields and on all lines seen by the worker - a generic placeholder there is reported under its own oracle id; (c) the outputs with and without the flag, walked in parallel with the labelled input, differ at namespace positions only. distinct = distinct input lines" + "; name set 6: names shaped like pseudonyms under each replacement text" + twinRule + wordsRule,
		Assumptions: []string{"the pseudonym function itself is C13's subject; here its value is taken from the tool for the same replacement text", "verbs the tool does not declare are out of scope"},
		Run:         c12Run,
	})
}
