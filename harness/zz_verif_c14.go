//go:build verif

package main

// C14 — selective mode redacts exactly the values under a matching field name.

import (
	"fmt"
	"regexp"
	"strings"
)

type c14Family struct {
	re    string
	match []string
	plain []string // extra non-matching names that are near misses of the expression
}

var c14Families = []c14Family{
	{`^(ssn|pii)$`, []string{"ssn", "pii"}, []string{"SSN", "Pii", "ssn2", "xpii"}},
	{`(?i)^SSN$`, []string{"ssn", "SSN", "Ssn"}, []string{"ssn_", "assn"}},
	{`ssn`, []string{"ssn", "xssnx", "my_ssn_2"}, []string{"SSN", "s.s.n", "sn"}},
}

var c14PlainNames = []string{"fld", "status", "createdAt", "owner", "tags", "qty", "score2", "addr"}

var searchStageKeys = map[string]bool{"$search": true, "$searchMeta": true, "$vectorSearch": true, "$rankFusion": true}

type c14Verdict struct {
	node     *LNode
	path     string
	expected int // +1 must be redacted, -1 must be unchanged, 0 don't care
	observed int // +1 changed, -1 unchanged, 0 leaf not found
}

// keyMatch: does a key count as a matching field name?  +1 yes, -1 no, 0 undecided (a dotted key whose
// whole text and whose components disagree).
func keyMatch(re *regexp.Regexp, key string) int {
	whole := re.MatchString(key)
	if !strings.Contains(key, ".") {
		if whole {
			return 1
		}
		return -1
	}
	comp := false
	for _, p := range strings.Split(key, ".") {
		if re.MatchString(p) {
			comp = true
		}
	}
	switch {
	case whole && comp:
		return 1
	case !whole && !comp:
		return -1
	}
	return 0
}

// c14Verdicts walks the command document and classifies every SECRET leaf.
func c14Verdicts(sc *sweepCase, re *regexp.Regexp, fl Flags, out *JNode) []c14Verdict {
	var vs []c14Verdict
	var rec func(n *LNode, names []int, inSearch, nearRef bool, path []string)
	rec = func(n *LNode, names []int, inSearch, nearRef bool, path []string) {
		if n.Kind == JArr {
			for _, k := range n.Kids {
				if k.Lab.K == LabFieldRef && k.Kind == JStr && re.MatchString(strings.TrimLeft(k.Str, "$")) {
					nearRef = true
				}
			}
		}
		if n.Lab.K == LabSecret && n.Kind != JObj && n.Kind != JArr {
			cls := n.Lab.Class
			if (cls == ClsNum && !fl.N) || (cls == ClsBool && !fl.B) {
				return
			}
			v := c14Verdict{node: n, path: strings.Join(path, ".")}
			state := -1
			for _, m := range names {
				if m == 1 {
					state = 1
				}
			}
			if state == -1 {
				for _, m := range names {
					if m == 0 {
						state = 0
					}
				}
			}
			if inSearch || (nearRef && state != 1) {
				state = 0
			}
			if state == 1 && cls == ClsBool && !n.Bool {
				state = 0 // false -> false cannot be told apart
			}
			if state == 1 && cls == ClsStr && n.Str == fl.Replacement() {
				state = 0
			}
			v.expected = state
			if o := follow(out, sc.Path(n)); o != nil && o.Kind == n.Kind {
				same := false
				switch n.Kind {
				case JStr:
					same = o.Str == n.Str
				case JNum:
					same = o.Num == n.Num
				case JBool:
					same = o.Bool == n.Bool
				case JNull:
					same = true
				}
				if same {
					v.observed = -1
				} else {
					v.observed = 1
				}
			} else if o != nil {
				v.observed = 1
			}
			vs = append(vs, v)
			return
		}
		for i, k := range n.Kids {
			nn, is, seg := names, inSearch, "[]"
			if n.Kind == JObj {
				seg = n.Keys[i]
				if searchStageKeys[n.Keys[i]] {
					is = true
				}
				if n.KeyLab[i] != KeyPlain {
					m := keyMatch(re, n.Keys[i])
					nn = append(append([]int(nil), names...), m)
					seg = map[int]string{1: "<match>", -1: "<f>", 0: "<dotted?>"}[m]
				}
			}
			rec(k, nn, is, nearRef, append(path, seg))
		}
	}
	rec(sc.C.Cmd, nil, false, false, nil)
	return vs
}

// c14Ladders: the distance between the matching name and the literal.  Every sequence of up to 4 (thorough 5)
// wrappers out of {embedded document, $elemMatch, array of documents, $elemMatch + $and, $not + comparison}
// is placed between the root of a query / update / inserted / $match document and a literal, and the one
// matching name sits at the top, in the middle, directly above the literal, or nowhere.
func c14Ladders(c *Ctx) {
	maxDepth := 4
	if c.Thorough() {
		maxDepth = 5
	}
	fam := c14Families[0]
	re := regexp.MustCompile(fam.re)
	type wrap func(name LKey, inner *LNode) *LNode
	wrappers := []struct {
		n string
		f wrap
	}{
		{"doc", func(k LKey, in *LNode) *LNode { return LO(k, in) }},
		{"elemMatch", func(k LKey, in *LNode) *LNode { return LO("$elemMatch", LO(k, in)) }},
		{"array-of-docs", func(k LKey, in *LNode) *LNode { return LA(LO(k, in), LO(Fn("zz"), LS("t").DC())) }},
		{"elemMatch-and", func(k LKey, in *LNode) *LNode { return LO("$elemMatch", LO("$and", LA(LO(k, in)))) }},
		{"or", func(k LKey, in *LNode) *LNode { return LO("$or", LA(LO(Fn("zz"), LS("t").DC()), LO(k, in))) }},
	}
	leafForms := []func(l *LNode) *LNode{
		func(l *LNode) *LNode { return l },
		func(l *LNode) *LNode { return LO("$in", LA(LS("other").DC(), l)) },
		func(l *LNode) *LNode { return LO("$not", LO("$eq", l)) },
		func(l *LNode) *LNode { return LA(LA(l)) },
	}
	var no int64
	var seq []int
	var rec func()
	rec = func() {
		if len(seq) > 0 {
			for pos := -1; pos < len(seq)+1; pos++ { // which name (0 = top field … len(seq) = innermost) matches; -1 none
				for lf, leafForm := range leafForms {
					for slot := 0; slot < 4; slot++ {
						no++
						if !c.Mine(no) {
							continue
						}
						leaf := LS("ladder secret 7731").With(Label{K: LabSecret, Class: ClsStr})
						name := func(i int) LKey {
							if i == pos {
								return FN("ssn")
							}
							return FN(fmt.Sprintf("lvl%d", i))
						}
						v := leafForm(leaf)
						for i := len(seq) - 1; i >= 0; i-- {
							v = wrappers[seq[i]].f(name(i+1), v)
						}
						doc := LO(name(0), v)
						var cmd *LNode
						switch slot {
						case 0:
							cmd = LO("find", LS("c"), "filter", doc, "$db", LS("d"))
						case 1:
							cmd = LO("update", LS("c"), "updates", LA(LO("q", LO(), "u", LO("$set", doc))), "$db", LS("d"))
						case 2:
							cmd = LO("insert", LS("c"), "documents", LA(doc), "$db", LS("d"))
						default:
							cmd = LO("aggregate", LS("c"), "pipeline", LA(LO("$match", doc)), "cursor", LO(), "$db", LS("d"))
						}
						cmd.Zone = true
						root := tEnvelope("COMMAND", "Slow query", LO("type", LS("command"), "ns", LS("d.c"), "command", cmd))
						resolveLabels(root, false, false)
						if root.HasDup() {
							continue
						}
						sc := &sweepCase{C: &Case{Root: root, Cmd: cmd, Secrets: []*LNode{leaf}, SlotName: "ladder"}, Line: root.JSON(), Layer: "ladder"}
						fl := Flags{Z: fam.re}
						fl.Apply()
						out, ok, pv := redactLine(sc.Line)
						c.Eval(1)
						c.Distinct(sc.Line)
						c.Count("ladder_cases", 1)
						if pv != nil || !ok {
							continue
						}
						j, err := ParseJSON([]byte(out))
						if err != nil {
							continue
						}
						for _, vd := range c14Verdicts(sc, re, fl, j) {
							problem := ""
							if vd.expected == 1 && vd.observed == -1 {
								problem = "not-redacted"
							} else if vd.expected == -1 && vd.observed == 1 {
								problem = "redacted-without-matching-name"
							}
							if problem == "" {
								c.Outcome("as-specified")
								continue
							}
							c.Outcome("mismatch")
							var ws []string
							for _, w := range seq {
								ws = append(ws, wrappers[w].n)
							}
							line := sc.Line
							c.Violate(fmt.Sprintf("selective-ladder:%s:name-%d-levels-above:leaf-form-%d", problem, len(seq)+1-pos, lf), fmt.Sprintf("%s: wrappers %v, matching name at level %d of %d, slot %d; input: %s | output: %s", problem, ws, pos, len(seq)+1, slot, trunc(line, 500), trunc(out, 500)),
								int64(len(line)), map[string]any{"kind": "redact", "flags": fl.String(), "input": line, "output": out}, func() bool { fl.Apply(); o, _, _ := redactLine(line); return o == out })
						}
					}
				}
			}
		}
		if len(seq) == maxDepth {
			return
		}
		for w := range wrappers {
			seq = append(seq, w)
			rec()
			seq = seq[:len(seq)-1]
		}
	}
	rec()
	Flags{}.Apply()
}

// c14Loc: zone key + the nearest operator / name marker above the leaf + array depth
func c14Loc(p string) string {
	segs := strings.Split(p, ".")
	zone := segs[0]
	arr := ""
	i := len(segs) - 1
	for i > 0 && segs[i] == "[]" {
		arr += "[]"
		i--
	}
	if i <= 0 {
		return zone + arr
	}
	return zone + ".…." + segs[i] + arr
}

func c14Run(c *Ctx) {
	// the regexp family must not match any operator of the vocabulary, nor any plain name
	paths, _ := vocabPaths(c.Src)
	for _, fam := range c14Families {
		re := regexp.MustCompile(fam.re)
		for _, p := range paths {
			for _, w := range p {
				if re.MatchString(w) {
					c.HarnessError("the regexp %s matches the vocabulary word %q", fam.re, w)
					return
				}
			}
		}
		for _, n := range append(append([]string{}, c14PlainNames...), fam.plain...) {
			if re.MatchString(n) {
				c.HarnessError("the regexp %s matches the plain name %q", fam.re, n)
				return
			}
		}
		for _, n := range fam.match {
			if !re.MatchString(n) {
				c.HarnessError("the regexp %s does not match %q", fam.re, n)
				return
			}
		}
	}
	alt := map[string]string{ClsStr: "a.b@c.example.org", ClsEmail: "plain words, no at sign", ClsDate: "not a date at all", ClsOid: "zz", ClsBin: "!!"}
	for fi, fam := range c14Families {
		re := regexp.MustCompile(fam.re)
		o0 := GenOpts{LeafSet: 1, MatchPool: fam.match, NamePatterns: true, FieldNames: append(append([]string{}, fam.plain...), c14PlainNames...), OneGate: true}
		layers := []sweepLayer{{"L0", o0, 0, nil}}
		if c.Thorough() {
			o2 := o0
			o2.LeafSet = 2
			layers = append(layers, sweepLayer{"L1", o0, 1, nil}, sweepLayer{"L2", o2, 2, nil})
		} else if fi == 0 {
			o1 := o0
			o1.LeafSet = 2
			layers = append(layers, sweepLayer{"L1", o1, 1, nil})
		}
		// the selective flag next to each other mode: the verdicts must be the same
		fsets := []Flags{{Z: fam.re}, {Z: fam.re, N: true, B: true}, {Z: fam.re, W: true, I: true, R: customReplacement}, {Z: fam.re, Y: true}}
		sweep(c, layers, func(sc *sweepCase) bool {
			if sc.C.Root.HasDup() || len(sc.C.Secrets) == 0 {
				return false
			}
			c.Distinct(sc.Line)
			// alternative contents for the value-independence run
			type orig struct{ s string }
			saved := map[*LNode]string{}
			for _, s := range sc.C.Secrets {
				if s.Kind == JStr {
					saved[s] = s.Str
				}
			}
			for fi2, fl := range fsets {
				if fi2 == 1 && sc.Layer == "L2" {
					break
				}
				if fi2 >= 2 && sc.Layer != "L0" {
					break
				}
				fl.Apply()
				out, ok, pv := redactLine(sc.Line)
				c.Eval(1)
				if pv != nil || !ok {
					c.Count("skipped_panics_or_rejected", 1)
					continue
				}
				j, err := ParseJSON([]byte(out))
				if err != nil {
					continue
				}
				vs := c14Verdicts(sc, re, fl, j)
				// second run: other contents, same names
				for s, v := range saved {
					if a, ok := alt[s.Lab.Class]; ok && v != "" {
						s.Str = a
					}
				}
				line2 := sc.C.Root.JSON()
				out2, ok2, pv2 := redactLine(line2)
				c.Eval(1)
				var vs2 []c14Verdict
				if pv2 == nil && ok2 {
					if j2, err := ParseJSON([]byte(out2)); err == nil {
						vs2 = c14Verdicts(sc, re, fl, j2)
					}
				}
				for s, v := range saved {
					s.Str = v
				}
				good := true
				for i, v := range vs {
					problem := ""
					switch {
					case v.observed == 0:
					case v.expected == 1 && v.observed == -1:
						problem = "not-redacted"
					case v.expected == -1 && v.observed == 1:
						problem = "redacted-without-matching-name"
					}
					if problem == "" && i < len(vs2) && vs2[i].node == v.node && vs2[i].observed != 0 && v.observed != 0 && vs2[i].observed != v.observed && v.node.Kind == JStr {
						problem = "depends-on-the-value"
					}
					if problem == "" {
						continue
					}
					good = false
					line, node, fl := sc.Line, v.node, fl
					what := map[string]string{
						"not-redacted":                   "a field name on its path matches the regexp but the literal is emitted unchanged",
						"redacted-without-matching-name": "no field name on its path matches the regexp but the literal is changed",
						"depends-on-the-value":           "whether the literal is redacted changes when only its content changes",
					}[problem]
					c.Violate("selective:"+problem+":"+c14Loc(v.path), fmt.Sprintf("%s: literal %s at %s; slot %s; names pattern %q; flags [%s]; input: %s | output: %s", what, trunc(node.JSON(), 60), v.path, sc.C.SlotName, namePatterns[sc.C.Pattern].name, fl, trunc(line, 500), trunc(out, 400)),
						int64(len(line)), replayOf(sc, fl, map[string]any{"output": out, "regexp": fam.re, "problem": problem, "names_pattern": namePatterns[sc.C.Pattern].name}),
						func() bool {
							if problem == "depends-on-the-value" {
								return true
							}
							fl.Apply()
							o, ok, _ := redactLine(line)
							if !ok {
								return false
							}
							jj, err := ParseJSON([]byte(o))
							if err != nil {
								return false
							}
							for _, w := range c14Verdicts(sc, re, fl, jj) {
								if w.node == node {
									return (problem == "not-redacted" && w.observed == -1) || (problem == "redacted-without-matching-name" && w.observed == 1)
								}
							}
							return false
						})
				}
				if good {
					c.Outcome("as-specified")
				} else {
					c.Outcome("mismatch")
				}
			}
			if c.P.Evaluations < 200 && sc.C.Pattern > 0 {
				c.Sample(map[string]any{"slot": sc.C.SlotName, "names_pattern": namePatterns[sc.C.Pattern].name, "regexp": fam.re, "line": trunc(sc.Line, 700)})
			}
			return false
		}, nil)
	}
	Flags{}.Apply()
	// the same lines in other JSON spellings (matching names written with escapes, white space between tokens)
	for _, fam := range c14Families[:2] {
		oS := GenOpts{LeafSet: 2, MatchPool: append([]string{"pr\u00e9nom/ssn"}, fam.match...), NamePatterns: true, FieldNames: append(append([]string{}, fam.plain...), c14PlainNames...), OneGate: true, Spellings: true}
		re := fam.re
		if fam.re == c14Families[0].re {
			re = `^(ssn|pii|pr\x{e9}nom/ssn)$`
		}
		sweep(c, []sweepLayer{{"spellings", oS, 0, []Flags{{Z: re}, {Z: re, N: true, B: true}}}}, func(sc *sweepCase) bool {
			return !sc.C.Root.HasDup() && len(sc.C.Secrets) > 0
		}, nil)
	}
	Flags{}.Apply()
	// a document that repeats the matching name: the literal is redacted at every occurrence
	for _, fam := range c14Families {
		duplicateKeyCheck(c, "selective", fam.match[0], []Flags{{Z: fam.re}, {Z: fam.re, N: true, B: true}}, func(can, line string) bool { return !strings.Contains(line, "other "+can) })
	}
	c14Ladders(c)
	c14Churn(c)
	c14Forms(c)
	c14Depths(c)
	// line locality in selective mode: the verdict for a line must not depend on the lines before it.  All
	// sequences up to length 3 (quick 2) over lines that spell the same path as a dotted key, as nested
	// documents, under operators and arrays, through the real CLI (fresh process per sequence, one line per
	// process for the reference outputs)
	// (every worker takes its share of the sequences of every family)
	for fi := range c14Families {
		mk := func(filter string) c06Sym {
			return c06Sym{Name: filter, Text: `{"t":{"$date":"2024-05-01T10:00:00.123+00:00"},"s":"I","c":"COMMAND","id":51803,"ctx":"conn1","msg":"Slow query","attr":{"type":"command","ns":"hr.staff","command":{"find":"staff","filter":` + filter + `,"$db":"hr"},"durationMillis":5}}`, Class: "object"}
		}
		alpha := []c06Sym{
			mk(`{"user.ssn":"111-22-3333"}`),
			mk(`{"user":{"ssn":"111-22-3333"}}`),
			mk(`{"ssn":{"$in":["111-22-3333","x"]}}`),
			mk(`{"user":{"name":"Alice","ssn.x":"y"}}`),
			mk(`{"name":"111-22-3333","$or":[{"ssn":"z"},{"user.name":"w"}]}`),
			mk(`{"user.name":"Bob"}`),
		}
		n := 2
		if c.Thorough() {
			n = 3
		}
		c06CLI(c, alpha, n, Flags{Z: c14Families[fi].re})
		// the same for Atlas Search clauses (the operator tables are shared by all lines of a run): geo and text
		// operators inside compound clauses and on their own, on a matching and on a non-matching path, with numbers
		// redacted as well; all sequences of up to 2 lines
		sk := func(stage string) c06Sym {
			return c06Sym{Name: stage, Text: `{"t":{"$date":"2024-05-01T10:00:00.123+00:00"},"s":"I","c":"COMMAND","id":51803,"ctx":"conn1","msg":"Slow query","attr":{"type":"command","ns":"hr.staff","command":{"aggregate":"staff","pipeline":[{"$search":` + stage + `}],"cursor":{},"$db":"hr"},"durationMillis":5}}`, Class: "object"}
		}
		var salpha []c06Sym
		for _, path := range []string{"ssn", "office"} {
			geoShape := `{"geoShape":{"path":"` + path + `","relation":"within","geometry":{"type":"Polygon","coordinates":[[[-73.54,45.54],[-73.5,45.5],[-73.54,45.54]]]}}}`
			within := `{"geoWithin":{"path":"` + path + `","circle":{"center":{"type":"Point","coordinates":[-73.54,45.54]},"radius":1600}}}`
			box := `{"geoWithin":{"path":"` + path + `","box":{"bottomLeft":{"type":"Point","coordinates":[112.4,-43.6]},"topRight":{"type":"Point","coordinates":[155.0,-9.1]}}}}`
			text := `{"text":{"path":"` + path + `","query":"111-22-3333 words"}}`
			salpha = append(salpha,
				sk(`{"index":"default","compound":{"must":[`+geoShape[1:len(geoShape)-1]+`}]}}`[0:0]+`{"index":"default","compound":{"must":[`+geoShape+`]}}`),
				sk(`{"index":"default","compound":{"should":[`+within+`],"mustNot":[`+box+`]}}`),
				sk(`{"index":"default",`+geoShape[1:]),
				sk(`{"index":"default","compound":{"filter":[`+text+`,`+within+`]}}`))
		}
		c06CLI(c, salpha, 2, Flags{Z: c14Families[fi].re, N: true})
	}
}

// c14Churn: the verdict for a name after OTHER names have passed through the process.  One in-process history per
// regexp: for EVERY gap g = 1 … N, a line with a matching and a non-matching name, then g field names never seen
// before (lines of up to 40 fresh keys), then the first line again; the matching literal must be redacted and the
// other one kept, each time.  Bounded name tables, verdict memos and rings are refilled g names at a time, so any
// capacity up to N is crossed, whatever the eviction rule (and whether or not a look-up refreshes an entry).
func c14Churn(c *Ctx) {
	if c.NShards > 1 && c.Shard >= len(c14Families) {
		return
	}
	fam := c14Families[c.Shard%len(c14Families)]
	maxGap := 1300
	if c.Thorough() {
		maxGap = 5000
	}
	Flags{Z: fam.re}.Apply()
	defer Flags{}.Apply()
	probe := func(where string, gap int) {
		for _, form := range []string{
			`{"find":"staff","filter":{"` + fam.match[0] + `":"111-22-3333 churn","` + fam.plain[0] + `":"kept churn"},"$db":"hr"}`,
			`{"aggregate":"staff","pipeline":[{"$match":{"` + fam.match[0] + `":{"$in":["111-22-3333 churn"]},"` + fam.plain[0] + `":{"$in":["kept churn"]}}}],"$db":"hr"}`,
		} {
			line := `{"t":{"$date":"2024-05-01T10:00:00.123+00:00"},"s":"I","c":"COMMAND","id":51803,"ctx":"conn1","msg":"Slow query","attr":{"type":"command","ns":"hr.staff","command":` + form + `,"durationMillis":5}}`
			out, ok, pv := redactLine(line)
			c.Eval(1)
			if pv != nil || !ok {
				continue
			}
			leaked, over := strings.Contains(out, "111-22-3333 churn"), !strings.Contains(out, "kept churn")
			if leaked || over {
				what, sig := "the literal under the matching name is emitted unchanged", "not-redacted"
				if !leaked {
					what, sig = "the literal under a name that does not match is redacted", "redacted-without-match"
				}
				c.Violate("selective-churn:"+sig, fmt.Sprintf("regexp %s: %s %s (gap: %d names never seen before were processed since the same line was last handled correctly)", fam.re, what, where, gap), int64(gap),
					map[string]any{"kind": "c14-churn", "regexp": fam.re, "gap": gap, "line": line, "output": out}, nil)
			}
		}
	}
	probe("at the start of the history", 0)
	fresh := 0
	for g := 1; g <= maxGap; g++ {
		for left := g; left > 0; {
			n := left
			if n > 40 {
				n = 40
			}
			var sb strings.Builder
			for k := 0; k < n; k++ {
				if k > 0 {
					sb.WriteByte(',')
				}
				fresh++
				fmt.Fprintf(&sb, `"churnName%d":"v"`, fresh)
			}
			line := `{"t":{"$date":"2024-05-01T10:00:00.123+00:00"},"s":"I","c":"COMMAND","id":51803,"ctx":"conn1","msg":"Slow query","attr":{"type":"command","ns":"hr.staff","command":{"find":"staff","filter":{` + sb.String() + `},"$db":"hr"},"durationMillis":5}}`
			redactLine(line)
			c.Eval(1)
			left -= n
		}
		probe("after the churn", g)
		c.Distinct(fmt.Sprintf("churn|%s|%d", fam.re, g))
	}
	c.Count("max:churn_gap", int64(maxGap))
	c.Count("churn_fresh_names", int64(fresh))
}

func init() {
	register(&PropDef{
		ID: "C14", Level: "exploration",
		Rule:        "G (find / count / distinct / aggregate incl. nested pipelines / findAndModify / update / delete / insert / WRITE-style lines) at 0 and <=1 non-default production over the full vocabulary (<=2 on 5 slots; thorough: all) x 8 patterns of which generated field names match (none, all, first, second, third, even, odd, all but first - generation order is outer before inner) x regexp family {^(ssn|pii)$, (?i)^SSN$, substring ssn} (checked at start-up to match no operator of the vocabulary) x {plain, N+B}; for every SECRET leaf the names (non-operator keys) on its path decide: some name matches => the leaf must differ from the input, none => it must be identical; don't care: anything inside a search stage, a literal in an array holding a matching \"$field\" reference, dotted keys whose whole text and components disagree about matching, false under B; every line is redacted a second time with other contents (plain <-> e-mail-shaped, valid <-> invalid date / oid / base64) and the verdict of each leaf must not change. distinct = distinct input lines" + "; churn: per regexp one in-process history with, for EVERY gap g = 1..1 300 (thorough 5 000), g never-seen field names between two occurrences of a find and an aggregate line holding a matching and a non-matching name" + c14FormsRule,
		Assumptions: []string{"'field name on the path' = object keys that are not operators, matched as whole strings (DESIGN.md 3.0 item 6)", "the label table of G is the trusted base"},
		Run:         c14Run,
	})
}
