//go:build verif

package main

import (
	"fmt"
	"sort"
	"strings"

	"github.com/elliotchance/orderedmap/v3"
)

func dumpVocab() int {
	set := map[string]bool{}
	var walk func(prefix []string, m *orderedmap.OrderedMap[string, any])
	walk = func(prefix []string, m *orderedmap.OrderedMap[string, any]) {
		for el := m.Front(); el != nil; el = el.Next() {
			p := append(append([]string{}, prefix...), el.Key)
			set[strings.Join(p, "/")] = true
			if sub, ok := el.Value.(*orderedmap.OrderedMap[string, any]); ok {
				walk(p, sub)
			}
		}
	}
	walk(nil, AggregationOperators)
	walk(nil, CoreOperators)
	walk([]string{"$search"}, SearchOperators)
	walk(nil, SearchAggregationOperators)
	walk(nil, OperatorMapDefs)
	var ks []string
	for k := range set {
		ks = append(ks, k)
	}
	sort.Strings(ks)
	for _, k := range ks {
		fmt.Println(k)
	}
	return 0
}
