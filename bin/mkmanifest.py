#!/usr/bin/env python3
# Regenerates /verif/MANIFEST.json from the table below (keeps it schema-valid at all times).
import json, os, sys
ROOT = os.path.dirname(os.path.dirname(os.path.abspath(__file__)))
props = [json.loads(l) for l in open(os.path.join(ROOT, 'properties.jsonl'))]
table = json.load(open(os.path.join(ROOT, 'bin', 'checks.json')))
checks, na = [], []
for p in props:
    pid = p['id']
    t = table.get(pid)
    if not t or t.get('not_applicable'):
        na.append({"property_id": pid, "reason": (t or {}).get('not_applicable', 'check not built yet (build phase in progress)')})
        continue
    checks.append({
        "property_id": pid,
        "quick_cmd": f"bin/check {pid} quick",
        "thorough_cmd": f"bin/check {pid} thorough",
        "evidence_file": f"/verif/evidence/{pid}.json",
        "replay_cmd_template": "bin/check replay {path}",
        "engine": "harness",
        "level_claimed": {"category": t['level'], "text": t['text'], "design_ref": t.get('design_ref', f"DESIGN.md section 3 / {pid}")},
        "level_note": t['note'],
        "technique": t['technique'],
    })
m = {
    "version": 1,
    "setup_cmd": "bin/setup",
    "hooks": {
        "guard": "verif",
        "enable": "bin/check copies /repo's working tree to a scratch directory, adds /verif/harness/*.go (all '//go:build verif') and builds with -tags verif; no source file of /repo is modified",
        "baseline_off_cmd": "bin/baseline",
        "source_commits": [],
        "add_only": True,
    },
    "engines": [{"name": "harness", "path": "/verif/harness", "serves_properties": [c['property_id'] for c in checks],
                 "kind_free_text": "hand-written stateless choice-sequence explorer (deviation-bounded DFS) + explicit-state searches over the real code, in-package harness built with tag verif; fault-injecting I/O, scripted Atlas RoundTripper, CLI runner"}],
    "checks": checks,
    "notes": "All checks rebuild from /repo's current working tree (VERIF_REPO overrides the path for mutant runs). Exit 0 = held, 1 = VIOLATION, 2 = harness error.",
    "not_applicable": na,
}
json.dump(m, open(os.path.join(ROOT, 'MANIFEST.json'), 'w'), indent=1)
print("checks:", len(checks), "not_applicable:", len(na))
