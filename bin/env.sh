# sourced by bin/check and bin/setup: offline Go environment for building /repo (go 1.24.3)
export GOFLAGS=-mod=mod GOPROXY=off GOSUMDB=off GONOSUMDB='*' GONOSUMCHECK=1 GOFLAGS=-mod=mod
export CGO_ENABLED=0
TC=/root/go/pkg/mod/golang.org/toolchain@v0.0.1-go1.24.3.linux-amd64/bin/go
if [ -x "$TC" ]; then
  export GOTOOLCHAIN=local
  GO="$TC"
else
  # fall back to the launcher with automatic toolchain selection (what the baseline uses)
  unset GOSUMDB
  export GOTOOLCHAIN=auto
  GO=go
fi
export GO
